//! verif-driver <command>: reads one hex-encoded input per stdin line, prints one result line each:
//!   OK <debug repr> | ERR <msg> | PANIC <msg>
use std::io::BufRead;
use std::panic::{catch_unwind, AssertUnwindSafe};
use std::path::PathBuf;
use std::sync::Arc;

use searchlite_core::storage::{InMemoryStorage, Storage};

fn unhex(s: &str) -> Vec<u8> {
  let s = s.trim();
  (0..s.len() / 2).map(|i| u8::from_str_radix(&s[2 * i..2 * i + 2], 16).unwrap()).collect()
}

fn run_one(cmd: &str, input: &[u8]) -> String {
  match cmd {
    "read_u64" => match searchlite_core::util::varint::read_u64(input) {
      Ok((v, n)) => format!("OK ({}, {})", v, n),
      Err(e) => format!("ERR {}", e),
    },
    "write_read_u64" => {
      // input = 8 bytes LE value followed by arbitrary rest
      let mut a = [0u8; 8];
      a.copy_from_slice(&input[..8]);
      let v = u64::from_le_bytes(a);
      let mut out = Vec::new();
      searchlite_core::util::varint::write_u64(v, &mut out);
      let n = out.len();
      out.extend_from_slice(&input[8..]);
      match searchlite_core::util::varint::read_u64(&out) {
        Ok((w, m)) => format!("OK v={} decoded=({}, {}) enc_len={}", v, w, m, n),
        Err(e) => format!("ERR v={} {}", v, e),
      }
    }
    "wal_replay" => {
      let root = PathBuf::from("/mem");
      let st: Arc<dyn Storage> = Arc::new(InMemoryStorage::new(root.clone()));
      let p = root.join("wal.log");
      st.write_all(&p, input).unwrap();
      match searchlite_core::wal::Wal::replay(st.as_ref(), &p) {
        Ok(es) => format!("OK {}", es.iter().map(|e| match e {
          searchlite_core::wal::WalEntry::AddDoc(d) => format!("Add({})", serde_json::to_string(d).unwrap_or_default()),
          searchlite_core::wal::WalEntry::DeleteDocId(s) => format!("Del({:?})", s),
          searchlite_core::wal::WalEntry::Commit => "Commit".to_string(),
        }).collect::<Vec<_>>().join(" ")),
        Err(e) => format!("ERR {}", e),
      }
    }
    "wal_append" => {
      // input: sequence of ops  [t:1][len:2 LE][payload]  -> hex of the log bytes written through Wal::append_*
      let root = PathBuf::from("/mem");
      let st: Arc<dyn Storage> = Arc::new(InMemoryStorage::new(root.clone()));
      let p = root.join("wal.log");
      let mut wal = searchlite_core::wal::Wal::open(st.clone(), &p).unwrap();
      let mut i = 0;
      while i + 3 <= input.len() {
        let t = input[i];
        let n = input[i + 1] as usize | ((input[i + 2] as usize) << 8);
        let pl = &input[i + 3..i + 3 + n];
        i += 3 + n;
        match t {
          1 => {
            let d: searchlite_core::api::types::Document = serde_json::from_slice(pl).unwrap();
            wal.append_add_doc(&d).unwrap()
          }
          2 => wal.append_commit().unwrap(),
          3 => wal.append_delete_doc_id(std::str::from_utf8(pl).unwrap()).unwrap(),
          _ => {}
        }
      }
      drop(wal);
      let bytes = st.read_to_end(&p).unwrap();
      format!("OK {}", bytes.iter().map(|b| format!("{:02x}", b)).collect::<String>())
    }
    "wal_pending" => {
      let root = PathBuf::from("/mem");
      let st: Arc<dyn Storage> = Arc::new(InMemoryStorage::new(root.clone()));
      let p = root.join("wal.log");
      st.write_all(&p, input).unwrap();
      match searchlite_core::wal::Wal::last_pending_ops(st.as_ref(), &p) {
        Ok(es) => format!("OK {}", es.iter().map(|e| match e {
          searchlite_core::wal::WalEntry::AddDoc(d) => format!("Add({})", serde_json::to_string(d).unwrap_or_default()),
          searchlite_core::wal::WalEntry::DeleteDocId(s) => format!("Del({:?})", s),
          searchlite_core::wal::WalEntry::Commit => "Commit".to_string(),
        }).collect::<Vec<_>>().join(" ")),
        Err(e) => format!("ERR {}", e),
      }
    }
    _ => "ERR unknown command".to_string(),
  }
}

fn main() {
  let cmd = std::env::args().nth(1).unwrap_or_default();
  std::panic::set_hook(Box::new(|_| {}));
  let stdin = std::io::stdin();
  for line in stdin.lock().lines() {
    let line = line.unwrap();
    let input = unhex(&line);
    let r = catch_unwind(AssertUnwindSafe(|| run_one(&cmd, &input)));
    match r {
      Ok(s) => println!("{}", s.replace('\n', " ")),
      Err(e) => {
        let msg = e.downcast_ref::<String>().cloned().or_else(|| e.downcast_ref::<&str>().map(|s| s.to_string())).unwrap_or_default();
        println!("PANIC {}", msg.replace('\n', " "))
      }
    }
  }
}
