//! verif-driver <command>: reads one hex-encoded input per stdin line, prints one result line each:
//!   OK <debug repr> | ERR <msg> | PANIC <msg>
use std::io::BufRead;
use std::panic::{catch_unwind, AssertUnwindSafe};
use std::path::PathBuf;
use std::sync::Arc;

use searchlite_core::storage::{InMemoryStorage, Storage};

fn unhex(s: &str) -> Vec<u8> {
  let s = s.trim();
  (0..s.len() / 2).map(|i| u8::from_str_radix(&s[2 * i..2 * i + 2], 16).unwrap()).collect()
}

fn run_one(cmd: &str, input: &[u8]) -> String {
  match cmd {
    "read_u64" => match searchlite_core::util::varint::read_u64(input) {
      Ok((v, n)) => format!("OK ({}, {})", v, n),
      Err(e) => format!("ERR {}", e),
    },
    "write_read_u64" => {
      // input = 8 bytes LE value followed by arbitrary rest
      let mut a = [0u8; 8];
      a.copy_from_slice(&input[..8]);
      let v = u64::from_le_bytes(a);
      let mut out = Vec::new();
      searchlite_core::util::varint::write_u64(v, &mut out);
      let n = out.len();
      out.extend_from_slice(&input[8..]);
      match searchlite_core::util::varint::read_u64(&out) {
        Ok((w, m)) => format!("OK v={} decoded=({}, {}) enc_len={}", v, w, m, n),
        Err(e) => format!("ERR v={} {}", v, e),
      }
    }
    "wal_replay" => {
      let root = PathBuf::from("/mem");
      let st: Arc<dyn Storage> = Arc::new(InMemoryStorage::new(root.clone()));
      let p = root.join("wal.log");
      st.write_all(&p, input).unwrap();
      match searchlite_core::wal::Wal::replay(st.as_ref(), &p) {
        Ok(es) => format!("OK {}", es.iter().map(|e| match e {
          searchlite_core::wal::WalEntry::AddDoc(d) => format!("Add({})", serde_json::to_string(d).unwrap_or_default()),
          searchlite_core::wal::WalEntry::DeleteDocId(s) => format!("Del({:?})", s),
          searchlite_core::wal::WalEntry::Commit => "Commit".to_string(),
        }).collect::<Vec<_>>().join(" ")),
        Err(e) => format!("ERR {}", e),
      }
    }
    "wal_append" => {
      // input: sequence of ops  [t:1][len:2 LE][payload]  -> hex of the log bytes written through Wal::append_*
      let root = PathBuf::from("/mem");
      let st: Arc<dyn Storage> = Arc::new(InMemoryStorage::new(root.clone()));
      let p = root.join("wal.log");
      let mut wal = searchlite_core::wal::Wal::open(st.clone(), &p).unwrap();
      let mut i = 0;
      while i + 3 <= input.len() {
        let t = input[i];
        let n = input[i + 1] as usize | ((input[i + 2] as usize) << 8);
        let pl = &input[i + 3..i + 3 + n];
        i += 3 + n;
        match t {
          1 => {
            let d: searchlite_core::api::types::Document = serde_json::from_slice(pl).unwrap();
            wal.append_add_doc(&d).unwrap()
          }
          2 => wal.append_commit().unwrap(),
          3 => wal.append_delete_doc_id(std::str::from_utf8(pl).unwrap()).unwrap(),
          _ => {}
        }
      }
      drop(wal);
      let bytes = st.read_to_end(&p).unwrap();
      format!("OK {}", bytes.iter().map(|b| format!("{:02x}", b)).collect::<String>())
    }
    "wal_pending" => {
      let root = PathBuf::from("/mem");
      let st: Arc<dyn Storage> = Arc::new(InMemoryStorage::new(root.clone()));
      let p = root.join("wal.log");
      st.write_all(&p, input).unwrap();
      match searchlite_core::wal::Wal::last_pending_ops(st.as_ref(), &p) {
        Ok(es) => format!("OK {}", es.iter().map(|e| match e {
          searchlite_core::wal::WalEntry::AddDoc(d) => format!("Add({})", serde_json::to_string(d).unwrap_or_default()),
          searchlite_core::wal::WalEntry::DeleteDocId(s) => format!("Del({:?})", s),
          searchlite_core::wal::WalEntry::Commit => "Commit".to_string(),
        }).collect::<Vec<_>>().join(" ")),
        Err(e) => format!("ERR {}", e),
      }
    }
    "search" => {
      // input: JSON {"schema": <schema>|null, "batches": [[doc,..],..], "deletes": [[id,..],..]?, "requests": [req,..]}
      // every batch is added and committed separately (one segment each); deletes[i] are queued with batch i.
      // output: JSON array, per request {"ok": SearchResult} | {"err": msg}
      let v: serde_json::Value = match serde_json::from_slice(input) { Ok(v) => v, Err(e) => return format!("ERR bad input {}", e) };
      let schema: searchlite_core::api::types::Schema = if v["schema"].is_null() {
        // default text schema, optionally extended: "schema_add": {"numeric_fields": [..], "keyword_fields": [..]}
        let mut base = serde_json::to_value(searchlite_core::api::types::Schema::default_text_body()).unwrap();
        if let Some(add) = v["schema_add"].as_object() {
          for (k, items) in add.iter() {
            if let (Some(dst), Some(src)) = (base[k].as_array_mut(), items.as_array()) {
              dst.extend(src.iter().cloned());
            }
          }
        }
        match serde_json::from_value(base) { Ok(s) => s, Err(e) => return format!("ERR schema_add {}", e) }
      } else {
        match serde_json::from_value(v["schema"].clone()) { Ok(s) => s, Err(e) => return format!("ERR schema {}", e) }
      };
      let path = PathBuf::from("/mem/idx");
      let opts = searchlite_core::api::types::IndexOptions {
        path: path.clone(), create_if_missing: true, enable_positions: true, bm25_k1: 0.9, bm25_b: 0.4,
        storage: searchlite_core::api::types::StorageType::InMemory,
      };
      let idx = match searchlite_core::api::Index::create(&path, schema, opts) { Ok(i) => i, Err(e) => return format!("ERR create {}", e) };
      let empty = Vec::new();
      let batches = v["batches"].as_array().unwrap_or(&empty);
      for (bi, b) in batches.iter().enumerate() {
        let mut w = match idx.writer() { Ok(w) => w, Err(e) => return format!("ERR writer {}", e) };
        for d in b.as_array().unwrap_or(&empty) {
          // a field value {"$f64_bits": n} stands for the double with that bit pattern, handed to the engine as a number in
          // memory (what a Rust or FFI caller passes), not as decimal text that a JSON parser has already rounded
          let mut d = d.clone();
          f64_from_bits_in_place(&mut d);
          let doc: searchlite_core::api::types::Document = match serde_json::from_value(serde_json::json!({"fields": d})) { Ok(d) => d, Err(e) => return format!("ERR doc {}", e) };
          if let Err(e) = w.add_document(&doc) { return format!("ERR add {}", e); }
        }
        if let Some(ds) = v["deletes"].get(bi).and_then(|x| x.as_array()) {
          for id in ds { if let Err(e) = w.delete_document(id.as_str().unwrap_or("")) { return format!("ERR delete {}", e); } }
        }
        if let Err(e) = w.commit() { return format!("ERR commit {}", e); }
      }
      // optional "compact": true - the segments are compacted into one before the requests are answered
      if v["compact"].as_bool().unwrap_or(false) {
        if let Err(e) = idx.compact() { return format!("ERR compact {}", e); }
      }
      let reader = match idx.reader() { Ok(r) => r, Err(e) => return format!("ERR reader {}", e) };
      let mut outs = Vec::new();
      for r in v["requests"].as_array().unwrap_or(&empty) {
        let req: searchlite_core::api::types::SearchRequest = match serde_json::from_value(r.clone()) { Ok(q) => q, Err(e) => { outs.push(serde_json::json!({"err": format!("request does not deserialize: {}", e)})); continue; } };
        let res = catch_unwind(AssertUnwindSafe(|| reader.search(&req)));
        match res {
          Ok(Ok(sr)) => outs.push(serde_json::json!({"ok": sr})),
          Ok(Err(e)) => outs.push(serde_json::json!({"err": e.to_string()})),
          Err(p) => {
            let msg = p.downcast_ref::<String>().cloned().or_else(|| p.downcast_ref::<&str>().map(|s| s.to_string())).unwrap_or_default();
            outs.push(serde_json::json!({"panic": msg}))
          }
        }
      }
      // optional second phase: "then_deletes": [id,..] are deleted and committed (a commit that adds no segment), a NEW
      // reader is opened and "then_requests" are answered; a request with "cursor_from": k carries the next_cursor of the
      // k-th first-phase answer
      if let Some(dels) = v["then_deletes"].as_array() {
        let mut w = match idx.writer() { Ok(w) => w, Err(e) => return format!("ERR writer {}", e) };
        for id in dels { if let Err(e) = w.delete_document(id.as_str().unwrap_or("")) { return format!("ERR delete {}", e); } }
        if let Err(e) = w.commit() { return format!("ERR commit {}", e); }
        let reader2 = match idx.reader() { Ok(r) => r, Err(e) => return format!("ERR reader {}", e) };
        for r in v["then_requests"].as_array().unwrap_or(&empty) {
          let mut r = r.clone();
          if let Some(k) = r.get("cursor_from").and_then(|k| k.as_u64()) {
            let cur = outs.get(k as usize).and_then(|o| o["ok"]["next_cursor"].as_str()).map(|c| c.to_string());
            if let Some(m) = r.as_object_mut() { m.remove("cursor_from"); if let Some(c) = cur { m.insert("cursor".to_string(), serde_json::Value::String(c)); } }
          }
          let req: searchlite_core::api::types::SearchRequest = match serde_json::from_value(r) { Ok(q) => q, Err(e) => { outs.push(serde_json::json!({"err": format!("request does not deserialize: {}", e)})); continue; } };
          match catch_unwind(AssertUnwindSafe(|| reader2.search(&req))) {
            Ok(Ok(sr)) => outs.push(serde_json::json!({"ok": sr})),
            Ok(Err(e)) => outs.push(serde_json::json!({"err": e.to_string()})),
            Err(_) => outs.push(serde_json::json!({"panic": "panic"})),
          }
        }
      }
      format!("OK {}", serde_json::Value::Array(outs))
    }
    "relocate" => {
      // input: JSON {"dir": scratch directory, "docs": [[doc,..],..] (one commit each), "more": [doc,..], "query": text}
      // an index is built on the file system at <dir>/a (or <dir>/<orig>), the directory is copied to <dir>/b (or <dir>/<copy>), and the COPY is searched,
      // written to, committed and compacted.  Reported: the files of <dir>/a (name, length, crc) before and after, the
      // hits of a, of the copy before its own writes, of the copy after <dir>/a has been deleted altogether.
      let v: serde_json::Value = match serde_json::from_slice(input) { Ok(v) => v, Err(e) => return format!("ERR bad json {}", e) };
      let base = PathBuf::from(v["dir"].as_str().unwrap_or(""));
      if base.as_os_str().is_empty() { return "ERR no dir".to_string(); }
      let a = base.join(v["orig"].as_str().unwrap_or("a"));
      let b = base.join(v["copy"].as_str().unwrap_or("b"));
      let _ = std::fs::remove_dir_all(&base);
      if let Err(e) = std::fs::create_dir_all(&a) { return format!("ERR mkdir {}", e); }
      let mk = |p: &PathBuf| searchlite_core::api::types::IndexOptions {
        path: p.clone(), create_if_missing: true, enable_positions: true, bm25_k1: 0.9, bm25_b: 0.4,
        storage: searchlite_core::api::types::StorageType::Filesystem,
      };
      let listing = |p: &PathBuf| -> Vec<(String, u64, u64)> {
        let mut out = Vec::new();
        if let Ok(rd) = std::fs::read_dir(p) {
          for e in rd.flatten() {
            let data = std::fs::read(e.path()).unwrap_or_default();
            use std::hash::Hasher;
            let mut h = std::collections::hash_map::DefaultHasher::new();
            h.write(&data);
            out.push((e.file_name().to_string_lossy().to_string(), data.len() as u64, h.finish()));
          }
        }
        out.sort();
        out
      };
      let q = v["query"].as_str().unwrap_or("rust").to_string();
      let hits_of = |idx: &searchlite_core::api::Index| -> Result<Vec<String>, String> {
        let req: searchlite_core::api::types::SearchRequest = serde_json::from_value(serde_json::json!({"query": q, "limit": 100, "return_stored": false, "highlight_field": null, "execution": "bm25"})).map_err(|e| e.to_string())?;
        let r = idx.reader().map_err(|e| format!("reader: {}", e))?;
        let res = r.search(&req).map_err(|e| format!("search: {}", e))?;
        Ok(res.hits.into_iter().map(|h| h.doc_id).collect())
      };
      let empty = Vec::new();
      let idx_a = match searchlite_core::api::Index::create(&a, searchlite_core::api::types::Schema::default_text_body(), mk(&a)) { Ok(i) => i, Err(e) => return format!("ERR create {}", e) };
      for batch in v["docs"].as_array().unwrap_or(&empty) {
        let mut w = match idx_a.writer() { Ok(w) => w, Err(e) => return format!("ERR writer {}", e) };
        for d in batch.as_array().unwrap_or(&empty) {
          let doc: searchlite_core::api::types::Document = match serde_json::from_value(serde_json::json!({"fields": d})) { Ok(d) => d, Err(e) => return format!("ERR doc {}", e) };
          if let Err(e) = w.add_document(&doc) { return format!("ERR add {}", e); }
        }
        if let Err(e) = w.commit() { return format!("ERR commit {}", e); }
      }
      let hits_a = hits_of(&idx_a);
      drop(idx_a);
      // copy the directory (flat: segment files, manifest, log)
      if let Err(e) = std::fs::create_dir_all(&b) { return format!("ERR mkdir b {}", e); }
      if let Ok(rd) = std::fs::read_dir(&a) {
        for e in rd.flatten() {
          if e.path().is_file() { if let Err(err) = std::fs::copy(e.path(), b.join(e.file_name())) { return format!("ERR copy {}", err); } }
        }
      }
      let before = listing(&a);
      let res = catch_unwind(AssertUnwindSafe(|| -> serde_json::Value {
        let idx_b = match searchlite_core::api::Index::open(mk(&b)) { Ok(i) => i, Err(e) => return serde_json::json!({"open_copy": format!("failed: {}", e)}) };
        let hits_b = hits_of(&idx_b);
        let mut log: Vec<String> = Vec::new();
        match idx_b.writer() {
          Ok(mut w) => {
            for d in v["more"].as_array().unwrap_or(&empty) {
              match serde_json::from_value::<searchlite_core::api::types::Document>(serde_json::json!({"fields": d})) {
                Ok(doc) => { if let Err(e) = w.add_document(&doc) { log.push(format!("add failed: {}", e)); } }
                Err(e) => log.push(format!("doc: {}", e)),
              }
            }
            if let Err(e) = w.commit() { log.push(format!("commit failed: {}", e)); }
          }
          Err(e) => log.push(format!("writer failed: {}", e)),
        }
        if let Err(e) = idx_b.compact() { log.push(format!("compact failed: {}", e)); }
        let hits_b2 = hits_of(&idx_b);
        drop(idx_b);
        let after = listing(&a);
        // the original, reopened after the copy was worked on
        let hits_a2 = match searchlite_core::api::Index::open(mk(&a)) { Ok(i) => hits_of(&i), Err(e) => Err(format!("open original: {}", e)) };
        // the copy on its own: remove the original altogether
        let _ = std::fs::remove_dir_all(&a);
        let hits_b3 = match searchlite_core::api::Index::open(mk(&b)) { Ok(i) => hits_of(&i), Err(e) => Err(format!("open copy alone: {}", e)) };
        serde_json::json!({"open_copy": "ok", "hits_copy": hits_b, "log": log, "hits_copy_after_writes": hits_b2, "original_after": after, "hits_original_after": hits_a2, "hits_copy_alone": hits_b3})
      }));
      let _ = std::fs::remove_dir_all(&base);
      match res {
        Ok(val) => format!("OK {}", serde_json::json!({"hits_original": hits_a, "original_before": before, "run": val})),
        Err(p) => {
          let msg = p.downcast_ref::<String>().cloned().or_else(|| p.downcast_ref::<&str>().map(|s| s.to_string())).unwrap_or_default();
          format!("OK {}", serde_json::json!({"hits_original": hits_a, "original_before": before, "panic": msg}))
        }
      }
    }
    "corrupt" => {
      // input: JSON {"docs": [doc,..], "flips": [[file, offset, xor],..]}  file in terms|postings|docstore|fast|meta
      // one segment is committed on in-memory storage; each flip alters ONE byte of one segment file (offset taken modulo
      // the file length), a fresh reader is opened, the outcome recorded, and the byte restored.
      // output: JSON array of {"file","off","len","open": "ok" | "err: .." | "panic: .."}
      let v: serde_json::Value = match serde_json::from_slice(input) { Ok(v) => v, Err(e) => return format!("ERR bad input {}", e) };
      let path = PathBuf::from("/mem/idx");
      let storage: Arc<dyn Storage> = Arc::new(InMemoryStorage::new(path.clone()));
      let opts = searchlite_core::api::types::IndexOptions {
        path: path.clone(), create_if_missing: true, enable_positions: true, bm25_k1: 0.9, bm25_b: 0.4,
        storage: searchlite_core::api::types::StorageType::InMemory,
      };
      let idx = match searchlite_core::Index::create_with_storage(&path, searchlite_core::api::types::Schema::default_text_body(), opts, storage.clone()) { Ok(i) => i, Err(e) => return format!("ERR create {}", e) };
      let empty = Vec::new();
      {
        let mut w = match idx.writer() { Ok(w) => w, Err(e) => return format!("ERR writer {}", e) };
        for d in v["docs"].as_array().unwrap_or(&empty) {
          let doc: searchlite_core::api::types::Document = match serde_json::from_value(serde_json::json!({"fields": d})) { Ok(d) => d, Err(e) => return format!("ERR doc {}", e) };
          if let Err(e) = w.add_document(&doc) { return format!("ERR add {}", e); }
        }
        if let Err(e) = w.commit() { return format!("ERR commit {}", e); }
      }
      let man = idx.manifest();
      let seg = match man.segments.first() { Some(s) => s.clone(), None => return "ERR no segment".to_string() };
      if let Err(e) = idx.reader() { return format!("ERR the intact index does not open: {}", e); }
      let mut outs = Vec::new();
      for f in v["flips"].as_array().unwrap_or(&empty) {
        let kind = f[0].as_str().unwrap_or("");
        let p = match kind { "terms" => &seg.paths.terms, "postings" => &seg.paths.postings, "docstore" => &seg.paths.docstore, "fast" => &seg.paths.fast, "meta" => &seg.paths.meta, _ => continue };
        let p = PathBuf::from(p);
        let orig = match storage.read_to_end(&p) { Ok(b) => b, Err(e) => return format!("ERR read {} {}", kind, e) };
        if orig.is_empty() { outs.push(serde_json::json!({"file": kind, "len": 0, "open": "skipped: empty file"})); continue; }
        let off = (f[1].as_u64().unwrap_or(0) as usize) % orig.len();
        let x = (f[2].as_u64().unwrap_or(1) as u8).max(1);
        let mut bad = orig.clone();
        bad[off] ^= x;
        storage.write_all(&p, &bad).unwrap();
        let res = catch_unwind(AssertUnwindSafe(|| idx.reader().map(|_| ())));
        let open = match res {
          Ok(Ok(())) => "ok".to_string(),
          Ok(Err(e)) => format!("err: {}", e),
          Err(pn) => format!("panic: {}", pn.downcast_ref::<String>().cloned().or_else(|| pn.downcast_ref::<&str>().map(|s| s.to_string())).unwrap_or_default()),
        };
        storage.write_all(&p, &orig).unwrap();
        outs.push(serde_json::json!({"file": kind, "off": off, "len": orig.len(), "open": open}));
      }
      format!("OK {}", serde_json::Value::Array(outs))
    }
    "history" => {
      // input: JSON {"ops": [["add", {doc}], ["del", "id"], ["commit"], ["rollback"], ["restart"], ["tear", n], ["compact"]]}
      // "restart" = the process dies (writer leaked, nothing synced explicitly) and the index is reopened on the same storage.
      // output: after the ops, a final commit of whatever a fresh writer recovers, then the live (id, stored fields) sorted by id.
      let v: serde_json::Value = match serde_json::from_slice(input) { Ok(v) => v, Err(e) => return format!("ERR bad input {}", e) };
      let path = PathBuf::from("/mem/idx");
      let storage: Arc<dyn Storage> = Arc::new(InMemoryStorage::new(path.clone()));
      let mk_opts = || searchlite_core::api::types::IndexOptions {
        path: path.clone(), create_if_missing: true, enable_positions: true, bm25_k1: 0.9, bm25_b: 0.4,
        storage: searchlite_core::api::types::StorageType::InMemory,
      };
      // optional "schema_add": {"numeric_fields": [..], "keyword_fields": [..], "nested_fields": [..]} extends the default schema
      let hist_schema: searchlite_core::api::types::Schema = {
        let mut base = serde_json::to_value(searchlite_core::api::types::Schema::default_text_body()).unwrap();
        if let Some(add) = v["schema_add"].as_object() {
          for (k, items) in add.iter() {
            if let (Some(dst), Some(src)) = (base[k].as_array_mut(), items.as_array()) {
              dst.extend(src.iter().cloned());
            }
          }
        }
        match serde_json::from_value(base) { Ok(s) => s, Err(e) => return format!("ERR schema_add {}", e) }
      };
      let mut idx = match searchlite_core::Index::create_with_storage(&path, hist_schema, mk_opts(), storage.clone()) { Ok(i) => i, Err(e) => return format!("ERR create {}", e) };
      let mut writer = match idx.writer() { Ok(w) => Some(w), Err(e) => return format!("ERR writer {}", e) };
      let mut writer2: Option<searchlite_core::api::writer::IndexWriter> = None;
      let empty = Vec::new();
      let mut log: Vec<String> = Vec::new();
      for op in v["ops"].as_array().unwrap_or(&empty) {
        let kind = op[0].as_str().unwrap_or("");
        match kind {
          "add" => {
            let doc: searchlite_core::api::types::Document = match serde_json::from_value(serde_json::json!({"fields": op[1]})) { Ok(d) => d, Err(e) => return format!("ERR doc {}", e) };
            if let Err(e) = writer.as_mut().unwrap().add_document(&doc) { log.push(format!("add failed: {}", e)); }
          }
          "del" => { if let Err(e) = writer.as_mut().unwrap().delete_document(op[1].as_str().unwrap_or("")) { log.push(format!("del failed: {}", e)); } }
          "commit" => { if let Err(e) = writer.as_mut().unwrap().commit() { log.push(format!("commit failed: {}", e)); } }
          "rollback" => { if let Err(e) = writer.as_mut().unwrap().rollback() { log.push(format!("rollback failed: {}", e)); } }
          "compact" => { if let Err(e) = idx.compact() { log.push(format!("compact failed: {}", e)); } }
          // a second writer handle of the same index, alive next to the first one
          "open2" => { writer2 = match idx.writer() { Ok(w) => Some(w), Err(e) => return format!("ERR second writer {}", e) }; }
          "add2" => {
            let doc: searchlite_core::api::types::Document = match serde_json::from_value(serde_json::json!({"fields": op[1]})) { Ok(d) => d, Err(e) => return format!("ERR doc {}", e) };
            if let Some(w) = writer2.as_mut() { if let Err(e) = w.add_document(&doc) { log.push(format!("add2 failed: {}", e)); } }
          }
          "del2" => { if let Some(w) = writer2.as_mut() { if let Err(e) = w.delete_document(op[1].as_str().unwrap_or("")) { log.push(format!("del2 failed: {}", e)); } } }
          "commit2" => { if let Some(w) = writer2.as_mut() { if let Err(e) = w.commit() { log.push(format!("commit2 failed: {}", e)); } } }
          "rollback2" => { if let Some(w) = writer2.as_mut() { if let Err(e) = w.rollback() { log.push(format!("rollback2 failed: {}", e)); } } }
          "drop2" => { writer2 = None; }
          "tear" => {
            // the process dies in the middle of an append: half a record (length 32, type 1, the first payload bytes) is
            // left behind the intact records of the log, then the index is reopened
            std::mem::forget(writer.take());
            let wp = path.join("wal.log");
            let mut bytes = if storage.exists(&wp) { storage.read_to_end(&wp).unwrap_or_default() } else { Vec::new() };
            let n = op[1].as_u64().unwrap_or(6) as usize;
            let half: [u8; 12] = [0x20, 0x01, b'{', b'"', b'f', b'i', b'e', b'l', b'd', b's', b'"', b':'];
            bytes.extend_from_slice(&half[..n.min(12)]);
            if let Err(e) = storage.write_all(&wp, &bytes) { return format!("ERR tear {}", e); }
            idx = match searchlite_core::Index::open_with_storage(mk_opts(), storage.clone()) { Ok(i) => i, Err(e) => return format!("ERR reopen {}", e) };
            writer = match idx.writer() { Ok(w) => Some(w), Err(e) => return format!("ERR writer after tear {}", e) };
          }
          "restart" => {
            std::mem::forget(writer.take());
            idx = match searchlite_core::Index::open_with_storage(mk_opts(), storage.clone()) { Ok(i) => i, Err(e) => return format!("ERR reopen {}", e) };
            writer = match idx.writer() { Ok(w) => Some(w), Err(e) => return format!("ERR writer after restart {}", e) };
          }
          _ => {}
        }
      }
      if let Err(e) = writer.as_mut().unwrap().commit() { log.push(format!("final commit failed: {}", e)); }
      let reader = match idx.reader() { Ok(r) => r, Err(e) => return format!("ERR reader {}", e) };
      let req: searchlite_core::api::types::SearchRequest = serde_json::from_value(serde_json::json!({
        "query": {"type": "match_all"}, "limit": 1000, "return_stored": true, "highlight_field": null, "execution": "bm25"})).unwrap();
      match reader.search(&req) {
        Ok(r) => {
          let mut live: Vec<(String, String)> = r.hits.iter().map(|h| (h.doc_id.clone(), h.fields.as_ref().map(|f| f["body"].to_string()).unwrap_or_default())).collect();
          live.sort();
          format!("OK {}", serde_json::json!({"live": live, "log": log}))
        }
        Err(e) => format!("ERR search {}", e),
      }
    }
    _ => "ERR unknown command".to_string(),
  }
}

fn f64_from_bits_in_place(v: &mut serde_json::Value) {
  match v {
    serde_json::Value::Object(m) => {
      if m.len() == 1 {
        if let Some(b) = m.get("$f64_bits").and_then(|b| b.as_u64()) {
          if let Some(n) = serde_json::Number::from_f64(f64::from_bits(b)) { *v = serde_json::Value::Number(n); }
          return;
        }
      }
      for (_, x) in m.iter_mut() { f64_from_bits_in_place(x); }
    }
    serde_json::Value::Array(a) => { for x in a.iter_mut() { f64_from_bits_in_place(x); } }
    _ => {}
  }
}

fn main() {
  let cmd = std::env::args().nth(1).unwrap_or_default();
  std::panic::set_hook(Box::new(|_| {}));
  let stdin = std::io::stdin();
  for line in stdin.lock().lines() {
    let line = line.unwrap();
    let input = unhex(&line);
    let r = catch_unwind(AssertUnwindSafe(|| run_one(&cmd, &input)));
    match r {
      Ok(s) => println!("{}", s.replace('\n', " ")),
      Err(e) => {
        let msg = e.downcast_ref::<String>().cloned().or_else(|| e.downcast_ref::<&str>().map(|s| s.to_string())).unwrap_or_default();
        println!("PANIC {}", msg.replace('\n', " "))
      }
    }
  }
}
