// Kani harnesses for query/sort.rs, compiled INSIDE the real crate:
//   #[cfg(kani)] #[path = "/verif/kani/sort_verif.rs"] mod kani_verif;
// They call the real private comparators.  K1 = order contracts, K9 = value selection.
use super::*;
use std::cmp::Ordering::{self, *};

fn any_order() -> SortOrder {
  if kani::any() { SortOrder::Asc } else { SortOrder::Desc }
}

fn dir(o: Ordering, order: SortOrder) -> Ordering {
  match order { SortOrder::Asc => o, SortOrder::Desc => o.reverse() }
}

// ---- leaf comparators: Asc follows total_cmp / Ord, Desc is its reverse (all f64 / f32 / i64 pairs) ----
#[kani::proof]
fn k1_compare_f64_is_directed_total_cmp() {
  let a: f64 = kani::any();
  let b: f64 = kani::any();
  let order = any_order();
  assert!(compare_f64(a, b, order) == dir(a.total_cmp(&b), order));
}

#[kani::proof]
fn k1_compare_f32_is_directed_total_cmp() {
  let a: f32 = kani::any();
  let b: f32 = kani::any();
  let order = any_order();
  assert!(compare_f32(a, b, order) == dir(a.total_cmp(&b), order));
}

#[kani::proof]
fn k1_compare_ord_i64_is_directed_cmp() {
  let a: i64 = kani::any();
  let b: i64 = kani::any();
  let order = any_order();
  assert!(compare_ord(a, b, order) == dir(a.cmp(&b), order));
}

// in-place contracts on the leaf comparators (see the cfg_attr(kani, kani::ensures) lines in sort.rs)
#[kani::proof_for_contract(compare_f64)]
fn k1_contract_compare_f64() {
  compare_f64(kani::any(), kani::any(), any_order());
}
#[kani::proof_for_contract(compare_f32)]
fn k1_contract_compare_f32() {
  compare_f32(kani::any(), kani::any(), any_order());
}

// ---- SortKeyPart::cmp ----
// kind: 0 Missing, 1 Score, 2 I64, 3 F64  (Str parts: String comparisons are out of CBMC's reach here; String: Ord assumed)
fn any_val(kind: u8) -> SortValue {
  if kani::any() {
    return SortValue::Missing;
  }
  match kind {
    1 => SortValue::Score(kani::any()),
    2 => SortValue::I64(kani::any()),
    3 => SortValue::F64(kani::any()),
    _ => SortValue::Missing,
  }
}

fn any_kind() -> u8 {
  let k: u8 = kani::any();
  kani::assume(k <= 3);
  k
}

// the specification of one part, written from C10: missing last under both orders; otherwise the directed total order
fn spec_part(a: &SortValue, b: &SortValue, order: SortOrder) -> Ordering {
  match (a, b) {
    (SortValue::Missing, SortValue::Missing) => Equal,
    (SortValue::Missing, _) => Greater,
    (_, SortValue::Missing) => Less,
    (SortValue::Score(x), SortValue::Score(y)) => dir(x.total_cmp(y), order),
    (SortValue::I64(x), SortValue::I64(y)) => dir(x.cmp(y), order),
    (SortValue::F64(x), SortValue::F64(y)) => dir(x.total_cmp(y), order),
    _ => Equal,
  }
}

#[kani::proof]
#[kani::unwind(2)]
fn k1_part_cmp_matches_spec() {
  let kind = any_kind();
  let order = any_order();
  let a = SortKeyPart { order, value: any_val(kind) };
  let b = SortKeyPart { order, value: any_val(kind) };
  assert!(a.cmp(&b) == spec_part(&a.value, &b.value, order));
  kani::cover!(a.cmp(&b) == Less);
}

#[kani::proof]
#[kani::unwind(2)]
fn k1_part_cmp_is_total_order() {
  let kind = any_kind();
  let order = any_order();
  let a = SortKeyPart { order, value: any_val(kind) };
  let b = SortKeyPart { order, value: any_val(kind) };
  let c = SortKeyPart { order, value: any_val(kind) };
  // reflexive, antisymmetric, transitive
  assert!(a.cmp(&a) == Equal);
  assert!(a.cmp(&b) == b.cmp(&a).reverse());
  if a.cmp(&b) != Greater && b.cmp(&c) != Greater {
    assert!(a.cmp(&c) != Greater);
  }
  if a.cmp(&b) == Equal && b.cmp(&c) == Equal {
    assert!(a.cmp(&c) == Equal);
  }
  kani::cover!(a.cmp(&b) == Less && b.cmp(&c) == Less);
}

// ---- SortKey::cmp: lexicographic over parts, then segment_ord, then doc_id; Equal only for the same (segment, doc) ----
fn any_key(kinds: [u8; 3], orders: [SortOrder; 3], n: usize) -> SortKey {
  let mut parts: SmallVec<[SortKeyPart; 4]> = SmallVec::new();
  let mut i = 0;
  while i < n {
    parts.push(SortKeyPart { order: orders[i], value: any_val(kinds[i]) });
    i += 1;
  }
  SortKey { parts, segment_ord: kani::any(), doc_id: kani::any() }
}

fn spec_key(a: &SortKey, b: &SortKey, n: usize) -> Ordering {
  let mut i = 0;
  while i < n {
    let o = spec_part(&a.parts[i].value, &b.parts[i].value, a.parts[i].order);
    if o != Equal {
      return o;
    }
    i += 1;
  }
  if a.segment_ord != b.segment_ord {
    return a.segment_ord.cmp(&b.segment_ord);
  }
  a.doc_id.cmp(&b.doc_id)
}

fn key_harness(n: usize) {
  let kinds = [any_kind(), any_kind(), any_kind()];
  let orders = [any_order(), any_order(), any_order()];
  let a = any_key(kinds, orders, n);
  let b = any_key(kinds, orders, n);
  let r = a.cmp(&b);
  assert!(r == spec_key(&a, &b, n));
  assert!(r == b.cmp(&a).reverse());
  if r == Equal {
    assert!(a.segment_ord == b.segment_ord && a.doc_id == b.doc_id);
  }
  kani::cover!(r == Less);
  kani::cover!(r == Equal);
}

#[kani::proof]
#[kani::unwind(5)]
fn k1_key_cmp_lexicographic_1() { key_harness(1); }
#[kani::proof]
#[kani::unwind(5)]
fn k1_key_cmp_lexicographic_2() { key_harness(2); }
#[kani::proof]
#[kani::unwind(5)]
fn k1_key_cmp_lexicographic_3() { key_harness(3); }

#[kani::proof]
#[kani::unwind(5)]
fn k1_key_cmp_transitive_2() {
  let kinds = [any_kind(), any_kind(), 0];
  let orders = [any_order(), any_order(), SortOrder::Asc];
  let a = any_key(kinds, orders, 2);
  let b = any_key(kinds, orders, 2);
  let c = any_key(kinds, orders, 2);
  if a.cmp(&b) != Greater && b.cmp(&c) != Greater {
    assert!(a.cmp(&c) != Greater);
  }
}

// ---- K9: value selection for multi-valued fields: Asc -> minimum, Desc -> maximum, empty -> Missing ----
#[kani::proof]
fn k9_selector_from_order() {
  assert!(matches!(ValueSelector::from(SortOrder::Asc), ValueSelector::Min));
  assert!(matches!(ValueSelector::from(SortOrder::Desc), ValueSelector::Max));
}

fn pick_i64_harness(n: usize) {
  let vals: [i64; 4] = kani::any();
  let v: Vec<i64> = vals[..n].to_vec();
  let sel = if kani::any() { ValueSelector::Min } else { ValueSelector::Max };
  let is_min = matches!(sel, ValueSelector::Min);
  let r = pick_numeric(v, sel);
  if n == 0 {
    assert!(matches!(r, SortValue::Missing));
  } else {
    match r {
      SortValue::I64(x) => {
        let mut i = 0;
        let mut found = false;
        while i < n {
          if is_min { assert!(x <= vals[i]); } else { assert!(x >= vals[i]); }
          if x == vals[i] { found = true; }
          i += 1;
        }
        assert!(found);
      }
      _ => assert!(false),
    }
  }
}

#[kani::proof]
#[kani::unwind(6)]
fn k9_pick_numeric_i64_len0() { pick_i64_harness(0); }
#[kani::proof]
#[kani::unwind(6)]
fn k9_pick_numeric_i64_len1() { pick_i64_harness(1); }
#[kani::proof]
#[kani::unwind(6)]
fn k9_pick_numeric_i64_len3() { pick_i64_harness(3); }

// concrete-playback tests (empty unless a failed harness is being replayed)
// ---- K9, keyword fields: the arm of ResolvedSortField::value that picks the sort value of a multi-valued keyword
// field, cut out mechanically on every run (kani/sort_slices.tpl -> .cache/gen/sort_slices.rs) ----
include!("/verif/.cache/gen/sort_slices.rs");

fn small_str(buf: &[u8; 2], n: usize) -> &str {
  // ASCII bytes only: any prefix is valid UTF-8
  unsafe { std::str::from_utf8_unchecked(&buf[..n]) }
}

// C10: "multi-valued fields sort by their minimum under asc and their maximum under desc" - for keyword values the
// order is the byte-wise string order; an empty list is Missing (None here)
#[kani::proof]
#[kani::unwind(4)]
fn k9_keyword_pick_len_le_2() {
  let a: [u8; 2] = kani::any();
  let b: [u8; 2] = kani::any();
  kani::assume(a[0] < 128 && a[1] < 128 && b[0] < 128 && b[1] < 128);
  let na: usize = kani::any();
  let nb: usize = kani::any();
  kani::assume(na <= 2 && nb <= 2);
  let sa = small_str(&a, na);
  let sb = small_str(&b, nb);
  let n: usize = kani::any();
  kani::assume(n <= 2);
  let selector = if kani::any() { ValueSelector::Min } else { ValueSelector::Max };
  let is_min = matches!(selector, ValueSelector::Min);
  let all = [sa, sb];
  let r = keyword_pick(&all[..n], selector);
  if n == 0 {
    assert!(r.is_none());
  } else if n == 1 {
    assert!(r == Some(sa));
  } else {
    let lo = if sa.as_bytes() <= sb.as_bytes() { sa } else { sb };
    let hi = if sa.as_bytes() <= sb.as_bytes() { sb } else { sa };
    let v = r.unwrap();
    assert!(v.as_bytes() == (if is_min { lo } else { hi }).as_bytes());
  }
  kani::cover!(n == 2 && sa != sb && is_min);
  kani::cover!(n == 2 && sa != sb && !is_min);
}

include!("/verif/.cache/gen/playback_sort.rs");
