//@@ unit K9gen
//@@ title extraction of the keyword arm of ResolvedSortField::value (query/sort.rs): the value a multi-valued keyword field sorts by
// GENERATED on every run from /repo/searchlite-core/src/query/sort.rs by vfw/extract.py -- do not edit.
// `values` is a Vec<&str> in the source; the statement only reads it through slice methods, so the harness passes a slice
//@@ extract keyword_pick
//@ file searchlite-core/src/query/sort.rs
//@ item impl ResolvedSortField :: fn value
//@ slice /let selected = match self\.selector \{/ .. /let selected = match self\.selector \{/
//@ header pub fn keyword_pick<'a>(values: &[&'a str], selector: ValueSelector) -> Option<&'a str>
//@ tail selected
//@ rewrite R9 /self\.selector/ => selector
//@@ end
