// Kani harness for searchlite-ffi/src/lib.rs (K5: the bounded copy at the end of searchlite_search).
// The two slices of searchlite_search are cut out mechanically on every run (kani/ffi_copy.tpl ->
// .cache/gen/ffi_copy.rs) and compiled here inside the real crate; the harness never reaches the engine.
use super::*;
include!("/verif/.cache/gen/ffi_copy.rs");

#[cfg(not(verif_thorough))]
const N: usize = 32;
#[cfg(verif_thorough)]
const N: usize = 1024;
const CANARY: u8 = 0xAA;

// C26: writes at most buf_cap bytes including the NUL, text before the NUL is a prefix of the response,
// returns the number of bytes before the NUL, nothing outside the caller's buffer is touched.
#[kani::proof]
#[kani::unwind(2)]
fn k5_copy_stays_in_buffer() {
  let src: [u8; N] = kani::any();
  let n: usize = kani::any();
  kani::assume(n <= N);
  let cap: usize = kani::any();
  kani::assume(1 <= cap && cap <= N + 2);
  // the caller's buffer is buf[..cap]; everything behind it is canary
  let mut buf = [CANARY; N + 4];
  let r = unsafe { ffi_copy_tail(&src[..n], buf.as_mut_ptr() as *mut c_char, cap) };
  let expect = if n < cap - 1 { n } else { cap - 1 };
  assert!(r == expect);
  assert!(r < cap);
  assert!(buf[r] == 0);
  let i: usize = kani::any();
  kani::assume(i < N + 4);
  if i < r {
    assert!(buf[i] == src[i]);
  }
  if i >= cap {
    assert!(buf[i] == CANARY);
  }
  kani::cover!(n > cap);
  kani::cover!(n + 1 < cap);
}

// null buffer or zero capacity: returns 0 without writing
#[kani::proof]
fn k5_guard_rejects_null_and_zero_capacity() {
  let mut buf = [CANARY; 4];
  let cap: usize = kani::any();
  let use_null: bool = kani::any();
  let p = if use_null { std::ptr::null_mut() } else { buf.as_mut_ptr() as *mut c_char };
  let r = unsafe { ffi_guard(p, cap) };
  if use_null || cap == 0 {
    assert!(r == 0);
  } else {
    assert!(r == usize::MAX); // falls through to the copy
  }
  assert!(buf[0] == CANARY && buf[1] == CANARY && buf[2] == CANARY && buf[3] == CANARY);
}

// concrete-playback tests (empty unless a failed harness is being replayed)
include!("/verif/.cache/gen/playback_ffi.rs");
