// Kani harness for searchlite-ffi/src/lib.rs (K5: the tail of searchlite_search - output-buffer guard, bounded copy, NUL).
// Everything after the `reader.search(&req)` call is cut out mechanically on every run (kani/ffi_copy.tpl ->
// .cache/gen/ffi_copy.rs; the serialisation call is replaced by the parameter `encoded_in`) and compiled here inside
// the real crate; the harness never reaches the engine.
use super::*;
include!("/verif/.cache/gen/ffi_copy.rs");

#[cfg(not(verif_thorough))]
const N: usize = 32;
#[cfg(verif_thorough)]
const N: usize = 256;
const CANARY: u8 = 0xAA;

// C26: writes at most buf_cap bytes including the NUL, text before the NUL is a prefix of the response,
// returns the number of bytes before the NUL, nothing outside the caller's buffer is touched; capacity 0 writes nothing.
// (null out_json_buf: see the extractor side condition in vfw/kani_run.py)
#[kani::proof]
#[kani::unwind(2)]
fn k5_copy_stays_in_buffer() {
  let src: [u8; N] = kani::any();
  let n: usize = kani::any();
  kani::assume(n <= N);
  let cap: usize = kani::any();
  kani::assume(cap <= N + 2);
  // the caller's buffer is buf[..cap]; everything behind it is canary
  let mut buf = [CANARY; N + 4];
  let encoded = unsafe { String::from_utf8_unchecked(src[..n].to_vec()) };
  let r = unsafe { ffi_tail(encoded, buf.as_mut_ptr() as *mut c_char, cap) };
  let i: usize = kani::any();
  kani::assume(i < N + 4);
  if cap == 0 {
    assert!(r == 0);
    assert!(buf[i] == CANARY);
  } else {
    let expect = if n < cap - 1 { n } else { cap - 1 };
    assert!(r == expect);
    assert!(r < cap);
    assert!(buf[r] == 0);
    if i < r {
      assert!(buf[i] == src[i]);
    }
    if i >= cap {
      assert!(buf[i] == CANARY);
    }
  }
  kani::cover!(cap > 0 && n > cap);
  kani::cover!(n + 1 < cap);
  kani::cover!(cap == 0);
}

// ---- K6: pointer arguments of searchlite_search (kani/ffi_inputs.tpl -> .cache/gen/ffi_inputs.rs) ----
// The statements that touch handle / query / cursor / aggs_json are cut out mechanically; reading a C string
// (CStr::from_ptr(p).to_string_lossy().to_string()) is replaced by a loop that reads p up to its NUL, UTF-8 decoding of the aggregation bytes by a function that reads
// every byte of the slice, and the JSON parser by a stub with either outcome: what is checked is WHICH memory is read.
include!("/verif/.cache/gen/ffi_inputs.rs");

const M: usize = 4;

unsafe fn k6_cstr_len(p: *const c_char) -> usize {
  let mut n = 0usize;
  while *p.add(n) != 0 {
    n += 1;
  }
  n
}

fn k6_touch_all(raw: &[u8]) -> String {
  let mut acc = 0u8;
  let mut i = 0;
  while i < raw.len() {
    acc ^= raw[i];
    i += 1;
  }
  if acc == 0x5A { String::new() } else { String::new() }
}

fn k6_parse_stub(_body: &String) -> Result<BTreeMap<String, Aggregation>, ()> {
  if kani::any() { Ok(BTreeMap::new()) } else { Err(()) }
}

// C26: a null handle or query is rejected before anything is dereferenced; a valid query is read up to its NUL only.
// The slice sees every raw-pointer parameter of searchlite_search (an earlier guard may mention any of them); returning 0
// early for other reasons is allowed, dereferencing a null pointer is not.
#[kani::proof]
#[kani::unwind(6)]
fn k6_head_rejects_null_handle_and_query() {
  let mut h = std::mem::MaybeUninit::<IndexHandle>::uninit();
  let hp: *mut IndexHandle = if kani::any() { std::ptr::null_mut() } else { h.as_mut_ptr() };
  let mut q: [u8; M] = kani::any();
  q[M - 1] = 0;
  let off: usize = kani::any();
  kani::assume(off < M);
  let qp: *const c_char = if kani::any() { std::ptr::null() } else { unsafe { q.as_ptr().add(off) as *const c_char } };
  let mut out = [0u8; 2];
  let op: *mut c_char = if kani::any() { std::ptr::null_mut() } else { out.as_mut_ptr() as *mut c_char };
  let cap: usize = kani::any();
  kani::assume(cap <= 2);
  let r = unsafe { ffi_head(hp, qp, std::ptr::null(), std::ptr::null(), kani::any(), op, cap) };
  if hp.is_null() || qp.is_null() {
    assert!(r == 0);
  } else {
    assert!(r <= 1 + (M - off));
  }
  kani::cover!(hp.is_null() && !qp.is_null());
  kani::cover!(!hp.is_null() && qp.is_null());
  kani::cover!(r > 1);
}

// C26: a null cursor means "no cursor" and is never dereferenced
#[kani::proof]
#[kani::unwind(6)]
fn k6_cursor_null_is_none() {
  let mut c: [u8; M] = kani::any();
  c[M - 1] = 0;
  let off: usize = kani::any();
  kani::assume(off < M);
  let cp: *const c_char = if kani::any() { std::ptr::null() } else { unsafe { c.as_ptr().add(off) as *const c_char } };
  let r = unsafe { ffi_cursor(cp) };
  assert!(r.is_none() == cp.is_null());
  kani::cover!(r.is_some());
}

// C26: the aggregation bytes are read only through a non-null pointer and only aggs_len of them
// (the buffer ends exactly aggs_len bytes after the pointer: one byte more is an out-of-bounds read)
#[kani::proof]
#[kani::unwind(6)]
fn k6_aggs_reads_only_given_bytes() {
  let buf: [u8; M] = kani::any();
  let len: usize = kani::any();
  let r = if kani::any() {
    unsafe { ffi_aggs(std::ptr::null(), len) }
  } else {
    kani::assume(len <= M);
    unsafe { ffi_aggs(buf.as_ptr().add(M - len) as *const c_char, len) }
  };
  kani::cover!(r.is_none());
  kani::cover!(r.is_some() && len > 0);
  std::mem::forget(r);
}

// C26: a null aggs_json is never read, whatever aggs_len says
#[kani::proof]
#[kani::unwind(6)]
fn k6_aggs_null_pointer_never_read() {
  let len: usize = kani::any();
  let r = unsafe { ffi_aggs(std::ptr::null(), len) };
  assert!(r.is_some());
  std::mem::forget(r);
}

// concrete-playback tests (empty unless a failed harness is being replayed)
include!("/verif/.cache/gen/playback_ffi.rs");
