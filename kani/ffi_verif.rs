// Kani harness for searchlite-ffi/src/lib.rs (K5: the tail of searchlite_search - output-buffer guard, bounded copy, NUL).
// Everything after the `reader.search(&req)` call is cut out mechanically on every run (kani/ffi_copy.tpl ->
// .cache/gen/ffi_copy.rs; the serialisation call is replaced by the parameter `encoded_in`) and compiled here inside
// the real crate; the harness never reaches the engine.
use super::*;
include!("/verif/.cache/gen/ffi_copy.rs");

#[cfg(not(verif_thorough))]
const N: usize = 32;
#[cfg(verif_thorough)]
const N: usize = 256;
const CANARY: u8 = 0xAA;

// C26: writes at most buf_cap bytes including the NUL, text before the NUL is a prefix of the response,
// returns the number of bytes before the NUL, nothing outside the caller's buffer is touched; capacity 0 writes nothing.
// (null out_json_buf: see the extractor side condition in vfw/kani_run.py)
#[kani::proof]
#[kani::unwind(2)]
fn k5_copy_stays_in_buffer() {
  let src: [u8; N] = kani::any();
  let n: usize = kani::any();
  kani::assume(n <= N);
  let cap: usize = kani::any();
  kani::assume(cap <= N + 2);
  // the caller's buffer is buf[..cap]; everything behind it is canary
  let mut buf = [CANARY; N + 4];
  let encoded = unsafe { String::from_utf8_unchecked(src[..n].to_vec()) };
  let r = unsafe { ffi_tail(encoded, buf.as_mut_ptr() as *mut c_char, cap) };
  let i: usize = kani::any();
  kani::assume(i < N + 4);
  if cap == 0 {
    assert!(r == 0);
    assert!(buf[i] == CANARY);
  } else {
    let expect = if n < cap - 1 { n } else { cap - 1 };
    assert!(r == expect);
    assert!(r < cap);
    assert!(buf[r] == 0);
    if i < r {
      assert!(buf[i] == src[i]);
    }
    if i >= cap {
      assert!(buf[i] == CANARY);
    }
  }
  kani::cover!(cap > 0 && n > cap);
  kani::cover!(n + 1 < cap);
  kani::cover!(cap == 0);
}

// concrete-playback tests (empty unless a failed harness is being replayed)
include!("/verif/.cache/gen/playback_ffi.rs");
