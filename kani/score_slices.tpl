//@@ unit K7gen
//@@ title extraction of the distance normalisation of the decay function (query/score_functions.rs CompiledFunction::evaluate, Decay arm)
// GENERATED on every run from /repo/searchlite-core/src/query/score_functions.rs by vfw/extract.py -- do not edit.
//@@ extract decay_norm
//@ file searchlite-core/src/query/score_functions.rs
//@ item impl CompiledFunction :: fn evaluate
//@ slice /let distance = / .. /let norm = /
//@ header pub fn decay_norm(value: f64, origin: &f64, offset: &f64, scale: &f64) -> f64
//@ tail norm
//@@ end
