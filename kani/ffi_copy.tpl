//@@ unit K5gen
//@@ title extraction of the tail of searchlite_search (everything after the search call) for the Kani harness (plain Rust, included by kani/ffi_verif.rs)
// GENERATED on every run from /repo/searchlite-ffi/src/lib.rs by vfw/extract.py -- do not edit.
//@@ extract ffi_tail
//@ file searchlite-ffi/src/lib.rs
//@ item fn searchlite_search
//@ slice-after /let res = match reader\.search\(&req\) \{/ .. /$/
//@ header pub unsafe fn ffi_tail(encoded_in: String, out_json_buf: *mut c_char, buf_cap: usize) -> usize
//@ early-return
//@ rewrite R15 /serde_json::to_string\(&res\)\.unwrap_or_else\(\|_\| "\{\}"\.to_string\(\)\)/ => encoded_in
//@@ end
