//@@ unit K5gen
//@@ title extraction of the copy tail of searchlite_search for the Kani harness (plain Rust, included by kani/ffi_verif.rs)
// GENERATED on every run from /repo/searchlite-ffi/src/lib.rs by vfw/extract.py -- do not edit.
//@@ extract ffi_guard
//@ file searchlite-ffi/src/lib.rs
//@ item fn searchlite_search
//@ slice /if out_json_buf\.is_null\(\) \|\| buf_cap == 0 \{/ .. /if out_json_buf\.is_null\(\) \|\| buf_cap == 0 \{/
//@ header pub unsafe fn ffi_guard(out_json_buf: *mut c_char, buf_cap: usize) -> usize
//@ early-return
//@ tail usize::MAX
//@@ end

//@@ extract ffi_copy_tail
//@ file searchlite-ffi/src/lib.rs
//@ item fn searchlite_search
//@ slice /let len = bytes\.len\(\)/ .. /$/
//@ header pub unsafe fn ffi_copy_tail(bytes: &[u8], out_json_buf: *mut c_char, buf_cap: usize) -> usize
//@@ end
