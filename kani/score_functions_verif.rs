// Kani harnesses for query/score_functions.rs (K7: flat score combinators)
use super::*;

fn any_boost_mode() -> FunctionBoostMode {
  let k: u8 = kani::any();
  match k % 5 {
    0 => FunctionBoostMode::Multiply,
    1 => FunctionBoostMode::Sum,
    2 => FunctionBoostMode::Replace,
    3 => FunctionBoostMode::Max,
    _ => FunctionBoostMode::Min,
  }
}

// documented boost_mode: multiply / sum / replace / max / min of (query score, function score)
#[kani::proof]
fn k7_apply_boost_mode_is_documented_combination() {
  let base: f32 = kani::any();
  let f: f32 = kani::any();
  kani::assume(base.is_finite() && f.is_finite());
  let mode = any_boost_mode();
  let r = apply_boost_mode(base, f, mode);
  let spec = match mode {
    FunctionBoostMode::Multiply => base * f,
    FunctionBoostMode::Sum => base + f,
    FunctionBoostMode::Replace => f,
    FunctionBoostMode::Max => if base >= f { base } else { f },
    FunctionBoostMode::Min => if base <= f { base } else { f },
  };
  assert!(r == spec || (r.is_nan() && spec.is_nan()));
}

// score_mode max / min over up to 3 function values (bounded length): empty -> None, else the extremum.
// (sum / multiply / avg are iterator sums over f32: products of symbolic floats took > 9 min under CBMC and are not taken)
#[kani::proof]
#[kani::unwind(5)]
fn k7_combine_function_scores_minmax_len_le_3() {
  let vals: [f32; 3] = kani::any();
  let n: usize = kani::any();
  kani::assume(n <= 3);
  kani::assume(!vals[0].is_nan() && !vals[1].is_nan() && !vals[2].is_nan());
  let is_max: bool = kani::any();
  let mode = if is_max { FunctionScoreMode::Max } else { FunctionScoreMode::Min };
  let r = combine_function_scores(&vals[..n], mode);
  if n == 0 {
    assert!(r.is_none());
  } else {
    let r = r.unwrap();
    let mut i = 0;
    let mut found = false;
    while i < n {
      if is_max { assert!(r >= vals[i]); } else { assert!(r <= vals[i]); }
      if r == vals[i] { found = true; }
      i += 1;
    }
    assert!(found);
  }
}

// ---- decay functions: the distance normalisation, cut out mechanically (kani/score_slices.tpl) ----
include!("/verif/.cache/gen/score_slices.rs");

// C10 (documented decay): inside the offset band around the origin there is no decay at all - the normalised distance
// is exactly 0 - and outside it the distance counts from the edge of the band; it is never negative
#[kani::proof]
fn k7_decay_norm_clamped_inside_offset_band() {
  let value: f64 = kani::any();
  let origin: f64 = kani::any();
  let offset: f64 = kani::any();
  let scale: f64 = kani::any();
  kani::assume(value.is_finite() && origin.is_finite() && offset.is_finite() && scale.is_finite());
  kani::assume(offset >= 0.0 && scale > 0.0);
  kani::assume(value.abs() < 1.0e150 && origin.abs() < 1.0e150 && offset < 1.0e150);
  let norm = decay_norm(value, &origin, &offset, &scale);
  let d = (value - origin).abs();
  assert!(norm >= 0.0);
  if d <= offset {
    assert!(norm == 0.0);
  }
  kani::cover!(d <= offset && d > 0.0);
  kani::cover!(d > offset);
}

// concrete-playback tests (empty unless a failed harness is being replayed)
include!("/verif/.cache/gen/playback_score_functions.rs");
