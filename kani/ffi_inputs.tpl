//@@ unit K6gen
//@@ title extraction of the pointer-argument handling of searchlite_search (null guards of handle / query / cursor, the length-delimited aggregation bytes) for the Kani harnesses (plain Rust, included by kani/ffi_verif.rs)
// GENERATED on every run from /repo/searchlite-ffi/src/lib.rs by vfw/extract.py -- do not edit.
//@@ extract ffi_head
//@ file searchlite-ffi/src/lib.rs
//@ item fn searchlite_search
//@ slice /if handle\.is_null\(\)/ .. /let query_str = /
//@ header pub unsafe fn ffi_head(handle: *mut IndexHandle, query: *const c_char, cursor: *const c_char, aggs_json: *const c_char, aggs_len: usize, out_json_buf: *mut c_char, buf_cap: usize) -> usize
//@ early-return
//@ tail 1 + query_str
//@ rewrite R15 /CStr::from_ptr\((\w+)\)\.to_string_lossy\(\)\.to_string\(\)/ => k6_cstr_len(\1)
//@@ end
//@@ extract ffi_cursor
//@ file searchlite-ffi/src/lib.rs
//@ item fn searchlite_search
//@ slice /let cursor = if cursor\.is_null\(\)/ .. /let cursor = if cursor\.is_null\(\)/
//@ header pub unsafe fn ffi_cursor(cursor: *const c_char) -> Option<usize>
//@ tail cursor
//@ rewrite R15 /CStr::from_ptr\((\w+)\)\.to_string_lossy\(\)\.to_string\(\)/ => k6_cstr_len(\1)
//@@ end
//@@ extract ffi_aggs
//@ file searchlite-ffi/src/lib.rs
//@ item fn searchlite_search
//@ slice /let aggs_map/ .. /let aggs_map/
//@ header pub unsafe fn ffi_aggs(aggs_json: *const c_char, aggs_len: usize) -> Option<BTreeMap<String, Aggregation>>
//@ early-return
//@ tail Some(aggs_map)
//@ rule R6
//@ rewrite R19 /return 0;/ => return None;
//@ rewrite R15 /String::from_utf8_lossy\(raw\)\.to_string\(\)/ => k6_touch_all(raw)
//@ rewrite R15 /serde_json::from_str\(&body\)/ => k6_parse_stub(&body)
//@@ end
