// Kani harnesses for query/aggs/mod.rs (K1: composite bucket key order used by composite paging)
use super::*;
use std::cmp::Ordering::*;

fn any_part() -> CompositeKeyPart {
  CompositeKeyPart::F64(kani::any())
}

// numeric parts: strict total order by total_cmp on the bits, Equal exactly when the derived == holds
#[kani::proof]
fn k1_composite_part_cmp_total_and_consistent_with_eq() {
  let a = any_part();
  let b = any_part();
  let c = any_part();
  assert!(a.cmp(&a) == Equal);
  assert!(a.cmp(&b) == b.cmp(&a).reverse());
  assert!((a.cmp(&b) == Equal) == (a == b));
  if a.cmp(&b) != Greater && b.cmp(&c) != Greater {
    assert!(a.cmp(&c) != Greater);
  }
}

fn any_key(n: usize) -> CompositeKey {
  let mut parts = Vec::new();
  let mut i = 0;
  while i < n {
    parts.push(any_part());
    i += 1;
  }
  CompositeKey { parts }
}

// keys of the same length (one part per source): lexicographic, antisymmetric, Equal <=> identical key
#[kani::proof]
#[kani::unwind(4)]
fn k1_composite_key_cmp_len2() {
  let a = any_key(2);
  let b = any_key(2);
  let r = a.cmp(&b);
  let first = a.parts[0].cmp(&b.parts[0]);
  let spec = if first != Equal { first } else { a.parts[1].cmp(&b.parts[1]) };
  assert!(r == spec);
  assert!(r == b.cmp(&a).reverse());
  assert!((r == Equal) == (a.parts[0] == b.parts[0] && a.parts[1] == b.parts[1]));
  kani::cover!(r == Less);
}

#[kani::proof]
#[kani::unwind(4)]
fn k1_composite_key_cmp_transitive_len2() {
  let a = any_key(2);
  let b = any_key(2);
  let c = any_key(2);
  if a.cmp(&b) != Greater && b.cmp(&c) != Greater {
    assert!(a.cmp(&c) != Greater);
  }
}

// the JSON form of a numeric key part (CompositeKeyPart::to_json, the real function on serde_json's real Number) reads back
// through Value::as_f64 as the SAME bit pattern, for every finite f64: loop-free, full domain (C30: after_key sent back as after)
#[kani::proof]
fn k1_composite_part_json_roundtrip_finite() {
  let bits: u64 = kani::any();
  kani::assume(f64::from_bits(bits).is_finite());
  let v = CompositeKeyPart::F64(bits).to_json();
  let back = v.as_f64().map(|f| f.to_bits());
  assert!(back == Some(bits));
  kani::cover!(bits == 0x43E0_0000_0000_0000);     // 2^63: beyond every i64
  std::mem::forget(v);
}

// ... and a part that is not a finite number has no numeric JSON form at all (it can never be confused with a bucket bound)
#[kani::proof]
fn k1_composite_part_json_nonfinite_is_null() {
  let bits: u64 = kani::any();
  kani::assume(!f64::from_bits(bits).is_finite());
  let v = CompositeKeyPart::F64(bits).to_json();
  assert!(v.is_null());
  std::mem::forget(v);
}

// ---- K10: exact-mode percentiles never index out of bounds, for ANY requested percent (C16: aggregation configs never panic) ----
fn percentile_harness(n: usize) {
  let vals: [f64; 3] = kani::any();
  kani::assume(vals[0].is_finite() && vals[1].is_finite() && vals[2].is_finite());
  let mut st = QuantileState { values: vals[..n].to_vec(), digest: None, count: n };
  let pct: f64 = kani::any();            // any bit pattern: negative, > 100, NaN, infinite
  let r = st.percentile(pct);
  // reaching this point at all means no index was out of bounds and nothing panicked
  if n == 0 {
    assert!(r == 0.0);
  } else if n == 1 {
    assert!(r == vals[0]);
  } else {
    assert!(!r.is_nan());
  }
  kani::cover!(pct > 100.0);
  kani::cover!(pct < 0.0);
}

#[kani::proof]
#[kani::unwind(5)]
fn k10_percentile_exact_len0() { percentile_harness(0); }
#[kani::proof]
#[kani::unwind(5)]
fn k10_percentile_exact_len1() { percentile_harness(1); }
#[kani::proof]
#[kani::unwind(5)]
fn k10_percentile_exact_len2() { percentile_harness(2); }

// C12: "the response equals an independent computation .. and does not depend on how the documents are spread across
// segments": whatever order the exact sample is held in (a merged sample is the concatenation of the segments' samples),
// the 0th percentile is the smallest value and the 100th the largest
#[kani::proof]
#[kani::unwind(5)]
fn k10_percentile_exact_len2_extremes_any_order() {
  let vals: [f64; 2] = kani::any();
  kani::assume(vals[0].is_finite() && vals[1].is_finite());
  let mut st = QuantileState { values: vals[..2].to_vec(), digest: None, count: 2 };
  let lo = st.percentile(0.0);
  let hi = st.percentile(100.0);
  let min = if vals[0] <= vals[1] { vals[0] } else { vals[1] };
  let max = if vals[0] <= vals[1] { vals[1] } else { vals[0] };
  assert!(lo == min);
  assert!(hi == max);
  kani::cover!(vals[0] > vals[1]);
}

// concrete-playback tests (empty unless a failed harness is being replayed)
include!("/verif/.cache/gen/playback_aggs.rs");
