// Kani harnesses for query/wand.rs (K1: RankedDoc order used by the top-k heaps)
use super::*;
use std::cmp::Ordering::*;

fn any_doc() -> RankedDoc {
  RankedDoc { doc_id: kani::any(), score: kani::any() }
}

// higher score ranks greater; on equal scores the SMALLER doc id ranks greater (so ties are broken by document order)
#[kani::proof]
fn k1_ranked_doc_cmp_matches_spec() {
  let a = any_doc();
  let b = any_doc();
  let spec = match a.score.total_cmp(&b.score) {
    Equal => b.doc_id.cmp(&a.doc_id),
    o => o,
  };
  assert!(a.cmp(&b) == spec);
  assert!(a.cmp(&b) == b.cmp(&a).reverse());
  if a.cmp(&b) == Equal {
    assert!(a.doc_id == b.doc_id && a.score.to_bits() == b.score.to_bits());
    assert!(a == b);
  }
}

#[kani::proof]
fn k1_ranked_doc_cmp_transitive() {
  let a = any_doc();
  let b = any_doc();
  let c = any_doc();
  if a.cmp(&b) != Greater && b.cmp(&c) != Greater {
    assert!(a.cmp(&c) != Greater);
  }
}

// concrete-playback tests (empty unless a failed harness is being replayed)
include!("/verif/.cache/gen/playback_wand.rs");
