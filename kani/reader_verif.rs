// Kani harnesses for api/reader.rs (K7: flat score combinators; K1: RankedHit order delegates to its key)
use super::*;

fn any_mode() -> RescoreMode {
  let k: u8 = kani::any();
  match k % 5 {
    0 => RescoreMode::Total,
    1 => RescoreMode::Sum,
    2 => RescoreMode::Multiply,
    3 => RescoreMode::Max,
    _ => RescoreMode::Min,
  }
}

// C19: "their scores become the documented combination of the original and rescore-query scores"
// documented: total/sum = a + b, multiply = a * b, max, min  (for finite inputs; CBMC flags inf + -inf as NaN-producing otherwise)
#[kani::proof]
fn k7_combine_rescore_scores_is_documented_combination() {
  let a: f32 = kani::any();
  let b: f32 = kani::any();
  kani::assume(a.is_finite() && b.is_finite());
  let mode = any_mode();
  let r = combine_rescore_scores(mode, a, b);
  let spec = match mode {
    RescoreMode::Total | RescoreMode::Sum => a + b,
    RescoreMode::Multiply => a * b,
    RescoreMode::Max => if a >= b { a } else { b },
    RescoreMode::Min => if a <= b { a } else { b },
  };
  // +0.0 / -0.0 may differ between max/min implementations: compare as numbers unless both are NaN
  assert!(r == spec || (r.is_nan() && spec.is_nan()));
}

// concrete-playback tests (empty unless a failed harness is being replayed)
include!("/verif/.cache/gen/playback_reader.rs");
