// Kani harnesses for api/reader.rs (K7: flat score combinators; K1: RankedHit order delegates to its key)
use super::*;

fn any_mode() -> RescoreMode {
  let k: u8 = kani::any();
  match k % 5 {
    0 => RescoreMode::Total,
    1 => RescoreMode::Sum,
    2 => RescoreMode::Multiply,
    3 => RescoreMode::Max,
    _ => RescoreMode::Min,
  }
}

// C19: "their scores become the documented combination of the original and rescore-query scores"
// documented: total/sum = a + b, multiply = a * b, max, min  (for finite inputs; CBMC flags inf + -inf as NaN-producing otherwise)
#[kani::proof]
fn k7_combine_rescore_scores_is_documented_combination() {
  let a: f32 = kani::any();
  let b: f32 = kani::any();
  kani::assume(a.is_finite() && b.is_finite());
  let mode = any_mode();
  let r = combine_rescore_scores(mode, a, b);
  let spec = match mode {
    RescoreMode::Total | RescoreMode::Sum => a + b,
    RescoreMode::Multiply => a * b,
    RescoreMode::Max => if a >= b { a } else { b },
    RescoreMode::Min => if a <= b { a } else { b },
  };
  // +0.0 / -0.0 may differ between max/min implementations: compare as numbers unless both are NaN
  assert!(r == spec || (r.is_nan() && spec.is_nan()));
}

// ---- K11: the hex text layer of cursors, one byte: decoding what hex_encode wrote gives the byte back (all 256 values) ----
#[kani::proof]
#[kani::unwind(4)]
fn k11_hex_byte_roundtrip() {
  let b: u8 = kani::any();
  let s = hex_encode(&[b]);
  assert!(s.len() == 2);
  let r = u8::from_str_radix(&s, 16);
  assert!(r == Ok(b));
}

// sort-cursor values: SortValue -> CursorValue -> SortValue keeps the value (bit-exact for floats)
#[kani::proof]
fn k11_cursor_value_roundtrip() {
  let k: u8 = kani::any();
  let v = match k % 4 {
    0 => SortValue::Score(kani::any()),
    1 => SortValue::I64(kani::any()),
    2 => SortValue::F64(kani::any()),
    _ => SortValue::Missing,
  };
  let c: CursorValue = v.clone().into();
  let back: SortValue = c.into();
  let same = match (&v, &back) {
    (SortValue::Score(a), SortValue::Score(b)) => a.to_bits() == b.to_bits(),
    (SortValue::I64(a), SortValue::I64(b)) => a == b,
    (SortValue::F64(a), SortValue::F64(b)) => a.to_bits() == b.to_bits(),
    (SortValue::Missing, SortValue::Missing) => true,
    _ => false,
  };
  assert!(same);
}

// concrete-playback tests (empty unless a failed harness is being replayed)
include!("/verif/.cache/gen/playback_reader.rs");
