"""Run Verus on a generated unit file and turn its output into obligation records."""
import json
import os
import re
import subprocess
import time

VERUS = os.environ.get('VERIF_VERUS', 'verus')

UNDECIDED_PATTERNS = [
    r'rlimit', r'[Rr]esource limit', r'timed? ?out', r'not supported', r'unsupported', r'does not (yet|currently) support',
    r'not yet supported', r'internal error', r'panicked',
]
VERIF_FAIL_PATTERNS = [
    'postcondition not satisfied', 'precondition not satisfied', 'assertion failed', 'invariant not satisfied',
    'possible arithmetic underflow/overflow', 'possible bit shift underflow/overflow', 'possible division by zero',
    'decreases not satisfied', 'could not prove termination', 'loop invariant', 'not satisfied', 'possible ',
    'assertion not satisfied', 'unreachable', 'failed',
]


def run(path, rlimit=None, multiple_errors=5, threads=8, timeout=600, seed=None):
    cmd = [VERUS, os.path.basename(path), '--output-json', '--time-expanded', '--error-format=json',
           '--multiple-errors', str(multiple_errors), '--num-threads', str(threads), '--triggers-mode', 'silent']
    if rlimit:
        cmd += ['--rlimit', str(rlimit)]
    if seed is not None:
        cmd += ['--smt-option', 'smt.random_seed=%d' % seed]
    t0 = time.time()
    try:
        p = subprocess.run(cmd, cwd=os.path.dirname(path), stdout=subprocess.PIPE, stderr=subprocess.PIPE,
                           timeout=timeout, text=True)
        out, err, rc = p.stdout, p.stderr, p.returncode
    except subprocess.TimeoutExpired as e:
        out, err, rc = '', 'verus timed out after %ss' % timeout, 124
    wall = time.time() - t0
    js = None
    try:
        js = json.loads(out)
    except Exception:
        js = None
    diags = []
    for line in err.split('\n'):
        line = line.strip()
        if not line.startswith('{'):
            continue
        try:
            d = json.loads(line)
        except Exception:
            continue
        if d.get('$message_type') == 'diagnostic' or 'message' in d:
            diags.append(d)
    return dict(cmd=' '.join(cmd), rc=rc, json=js, diags=diags, wall_s=wall, stderr=err, stdout=out)


def summarize(res):
    """-> dict(state='ok'|'failed'|'undecided', errors=[diag...], verified, n_errors, smt_ms, per_function)"""
    js = res['json']
    errs = [d for d in res['diags'] if d.get('level') == 'error' and not d['message'].startswith('aborting due to')]
    info = dict(state='ok', errors=errs, verified=0, n_errors=0, smt_ms=0, per_function={}, cause=None)
    if js is None:
        info['state'] = 'undecided'
        info['cause'] = 'verus produced no result (compile/type error in generated file): ' + \
            '; '.join(d['message'] for d in errs[:3]) if errs else 'verus produced no json: ' + res['stderr'][-400:]
        return info
    vr = js.get('verification-results', {})
    info['verified'] = vr.get('verified', 0)
    info['n_errors'] = vr.get('errors', 0)
    try:
        smt = js['times-ms']['smt']
        info['smt_ms'] = smt.get('total', 0)
        for mod in smt.get('smt-run-module-times', []):
            for fb in mod.get('function-breakdown', []):
                info['per_function'][fb['function']] = dict(success=fb.get('success'), time_us=fb.get('time-micros'), rlimit=fb.get('rlimit'), mode=fb.get('mode:'))
    except Exception:
        pass
    if vr.get('encountered-vir-error'):
        info['state'] = 'undecided'
        info['cause'] = 'verus front-end error (unsupported construct / ill-formed generated file): ' + '; '.join(d['message'] for d in errs[:3])
        return info
    if not vr.get('success'):
        und = [d for d in errs if any(re.search(p, d['message']) for p in UNDECIDED_PATTERNS)]
        if und and len(und) == len(errs):
            info['state'] = 'undecided'
            info['cause'] = 'solver resource limit / unsupported: ' + '; '.join(d['message'] for d in und[:3])
        elif info['n_errors'] > 0:
            info['state'] = 'failed'
            info['undecided_part'] = [d['message'] for d in und]
        else:
            info['state'] = 'undecided'
            info['cause'] = 'verus reported failure without verification errors: ' + '; '.join(d['message'] for d in errs[:3])
    return info


def diag_lines(d):
    """all (line_start, line_end, is_primary, label) spans of a diagnostic incl. children"""
    out = []
    for sp in d.get('spans', []):
        out.append((sp['line_start'], sp['line_end'], sp.get('is_primary', False), sp.get('label')))
    for ch in d.get('children', []):
        for sp in ch.get('spans', []):
            out.append((sp['line_start'], sp['line_end'], False, sp.get('label') or ch.get('message')))
    return out
