"""Regenerates MANIFEST.json from vfw/props.py (claimed checks) and the not-applicable table below."""
import json
import os
import subprocess
import sys

sys.path.insert(0, os.path.dirname(os.path.dirname(os.path.abspath(__file__))))
from vfw import props

VERIF = os.path.dirname(os.path.dirname(os.path.abspath(__file__)))

NA = {
    'C05': 'thread schedules: Kani has no thread support, Verus would need the code rewritten onto its permission types',
    'C06': 'thread schedules between reader open and compaction cleanup; not expressible as a per-call contract',
    'C24': 'server behaviour under arbitrary requests, panics across spawn_blocking; no per-call contract within reach',
    'C25': 'cross-front-end equivalence of whole programs (CLI process, HTTP server, FFI) is not a function contract',
    'C27': 'async task and IndexedDB orderings, wasm32 only; no verifier here targets wasm32/JS interop',
    'C29': 'non-default feature; similarity uses sqrt (not modelled), HNSW and candidate maps are HashMap code',
}

NOT_BUILT = 'claimed in DESIGN.md but its units are not built yet in this commit'


def main():
    ids = [json.loads(l)['id'] for l in open(os.path.join(VERIF, 'properties.jsonl'))]
    checks = []
    na = []
    for pid in ids:
        cfg = props.PROPS.get(pid)
        if cfg is None:
            na.append(dict(property_id=pid, reason=NA.get(pid, NOT_BUILT)))
            continue
        units = cfg['units'] + cfg.get('kani', [])
        checks.append(dict(
            property_id=pid,
            quick_cmd='./check %s --tier quick' % pid,
            thorough_cmd='./check %s --tier thorough' % pid,
            evidence_file='evidence/%s.json' % pid,
            replay_cmd_template='./check %s --replay {path}' % pid,
            engine='contracts',
            level_claimed=dict(category=cfg['level'], design_ref='DESIGN.md section 6 (%s), units %s in section 5' % (pid, ' '.join(units)),
                               text=cfg.get('level_text') or ('Deductive proof (Verus, unbounded; Kani where named) of contracts on the real functions: ' + cfg['scope'] + '.')),
            level_note='Decides only: ' + cfg['scope'] + '. NOT decided: ' + cfg['outside'] + '. Trusted: Verus/Z3/vstd (Kani/CBMC where used), the logged extraction rewrites, and the assumed dependency contracts listed in the evidence file (trusted_base).',
            technique=cfg.get('technique', 'contract-based deductive verification: Verus requires/ensures/invariants on functions extracted mechanically from /repo each run'),
        ))
    hooks_commits = []
    try:
        out = subprocess.run(['git', '-C', '/repo', 'log', '--format=%h %s'], stdout=subprocess.PIPE, text=True).stdout
        for l in out.split('\n'):
            if l[8:].startswith('verif-hook:') or ' verif-hook:' in l:
                hooks_commits.append(l.split()[0])
    except Exception:
        pass
    man = dict(
        version=1,
        setup_cmd='./check --setup',
        hooks=dict(guard='cfg(kani)', enable='cargo kani sets --cfg kani; Verus needs no hook (it reads the source files)',
                   baseline_off_cmd='cd /repo && cargo test --workspace --no-fail-fast --offline',
                   source_commits=hooks_commits, add_only=True),
        engines=[dict(name='contracts', path='/verif/check', serves_properties=[c['property_id'] for c in checks],
                      kind_free_text='Verus (single-file, functions extracted from /repo on every run) + Kani function harnesses compiled inside the real crates')],
        checks=checks,
        notes='Technique family: contract-based deductive verification of the real code. See DESIGN.md. known_findings.json lists repaired/open genuine defects.',
        not_applicable=na,
    )
    with open(os.path.join(VERIF, 'MANIFEST.json'), 'w') as f:
        json.dump(man, f, indent=1)
    print('MANIFEST.json: %d checks, %d not applicable' % (len(checks), len(na)))


if __name__ == '__main__':
    main()
