"""Run one verification unit (Verus template) against /repo's working tree and return a UnitResult."""
import json
import os
import re
import time

from . import extract, verus_run
from .rustlex import ExtractError

VERIF = os.path.dirname(os.path.dirname(os.path.abspath(__file__)))
CACHE = os.path.join(VERIF, '.cache')
GEN = os.path.join(CACHE, 'gen')


def unit_template(uid):
    return os.path.join(VERIF, 'units', uid + '.vrs')


def origin_loc(gen, line):
    """generated line (1-based) -> 'file:line' in /repo, or 'units/<U>.vrs:line'"""
    if line < 1 or line > len(gen.origin):
        return None
    o = gen.origin[line - 1]
    if o[0] == 'repo':
        return '%s:%d' % (o[1], o[2])
    if o[0] == 'tpl':
        return 'tpl:%d' % o[1]
    return None


def nearest_repo_loc(gen, line, lo, hi):
    """nearest repo-origin line at or before `line` within [lo,hi]"""
    for l in range(line, lo - 1, -1):
        o = gen.origin[l - 1]
        if o[0] == 'repo':
            return '%s:%d' % (o[1], o[2])
    for l in range(line, hi + 1):
        o = gen.origin[l - 1]
        if o[0] == 'repo':
            return '%s:%d' % (o[1], o[2])
    return None


def run_verus_unit(uid, tier='quick', keep=True):
    t0 = time.time()
    res = dict(unit=uid, backend='verus', state='ok', cause=None, functions=[], obligations=[], assumed=[],
               assumes=[], rewrite_log=[], canary={}, checker_cmd='', wall_s=0.0, smt_s=0.0, title='',
               gen_file=None, failures=[])
    os.makedirs(GEN, exist_ok=True)
    tpl = unit_template(uid)
    try:
        unit, gen, tfuncs = extract.expand(tpl)
    except ExtractError as e:
        res['state'] = 'undecided'
        res['cause'] = 'extractor: %s' % e
        res['wall_s'] = time.time() - t0
        return res
    res['title'] = unit['title']
    res['assumes'] = list(unit['assumes'])
    res['rewrite_log'] = gen.rewrite_log
    res['skipped_hints'] = gen.skipped_hints
    gpath = os.path.join(GEN, uid + '.rs')
    with open(gpath, 'w') as f:
        f.write(gen.text())
    res['gen_file'] = gpath
    # functions under contract
    for f in gen.functions:
        res['functions'].append(dict(name=f['name'], kind=f['kind'], file=f['repo_file'], lines=f['repo_lines'],
                                     item=f.get('item'), sha256=f['sha256'], contracted=f.get('contracted', False)))
    for f in gen.functions:
        if f.get('imported_from'):
            res.setdefault('imports', []).append('%s.%s' % (f['imported_from'], f['name']))
    # obligation table
    obls = []
    for f in gen.functions:
        for o in f['obligations']:
            obls.append(dict(id=o['id'], unit=uid, function=f['name'], kind=o['kind'], backend='verus', status='discharged',
                             text=o['text'], gen_lines=o['gen_lines'], fn_range=f['gen_range'],
                             repo_loc='%s:%d' % (f['repo_file'], f['repo_lines'][0])))
    for t in tfuncs:
        if t['name'] == 'main' or t['kind'] == 'spec':
            continue
        if t.get('imported'):
            res.setdefault('imports', []).append(t['imported'])
            continue
        if t['assumed']:
            res['assumed'].append('%s: %s' % (t['name'], t['sig']))
            continue
        obls.append(dict(id='%s.lemma.%s' % (uid, t['name']) if t['kind'] == 'proof' else '%s.tplfn.%s' % (uid, t['name']),
                         unit=uid, function=t['name'], kind='lemma' if t['kind'] == 'proof' else 'template-exec-fn', backend='verus',
                         status='discharged', text=t['sig'], gen_lines=t['gen_range'], fn_range=t['gen_range'],
                         repo_loc='units/%s.vrs' % uid))
    # mechanical scan for trust markers in the generated text
    gtxt = gen.text()
    for mm in re.finditer(r'(?<![A-Za-z0-9_])(assume|admit)\s*\(', gtxt):
        ln = gtxt.count('\n', 0, mm.start()) + 1
        res['assumed'].append('%s at generated line %d (%s)' % (mm.group(1), ln, origin_loc(gen, ln)))
    for mm in re.finditer(r'assume_specification', gtxt):
        ln = gtxt.count('\n', 0, mm.start()) + 1
        res['assumed'].append('assume_specification at generated line %d: %s' % (ln, gen.lines[ln - 1].strip()[:160]))
    rlimit = None
    if tier == 'thorough':
        rlimit = 20
    vr = verus_run.run(gpath, rlimit=rlimit)
    res['checker_cmd'] = vr['cmd']
    summ = verus_run.summarize(vr)
    res['smt_s'] = summ['smt_ms'] / 1000.0
    res['verus_verified'] = summ['verified']
    res['verus_errors'] = summ['n_errors']
    all_ranges = [(o['fn_range'][0], o['fn_range'][1], o['function']) for o in obls]
    if summ['state'] == 'undecided':
        res['state'] = 'undecided'
        res['cause'] = summ['cause']
        for o in obls:
            o['status'] = 'undecided'
    if summ['state'] == 'failed':
        # A failed query is re-run under two other solver seeds.  An obligation that is discharged under ANY seed is
        # proved (the proof does not depend on the seed); only what fails under every seed is reported.  This keeps an
        # unstable proof step from turning a harmless edit into an alarm.
        def fn_of(d):
            spans = verus_run.diag_lines(d)
            prim = [s for s in spans if s[2]] or spans
            pl = prim[0][0] if prim else 0
            for (a, b, name) in all_ranges:
                if a <= pl <= b:
                    return name
            return None
        stable = set(fn_of(d) for d in summ['errors'])
        res['seed_retries'] = []
        for seed in (1, 2):
            if not stable - {None}:
                break
            vr2 = verus_run.run(gpath, rlimit=rlimit, seed=seed)
            s2 = verus_run.summarize(vr2)
            if s2['state'] == 'ok':
                failing2 = set()
            elif s2['state'] == 'failed':
                failing2 = set(fn_of(d) for d in s2['errors'])
            else:
                continue    # this seed decided nothing
            res['seed_retries'].append(dict(seed=seed, failing_functions=sorted(x for x in failing2 if x)))
            stable = set(x for x in stable if x is None or x in failing2)
        kept = [d for d in summ['errors'] if fn_of(d) in stable]
        if len(kept) < len(summ['errors']):
            res['discharged_on_retry'] = sorted(set(fn_of(d) for d in summ['errors']) - stable - {None})
            summ['errors'] = kept
            if not kept:
                summ['state'] = 'ok'
    if summ['state'] == 'failed':
        res['state'] = 'failed'
        failing_fns = set()
        for d in summ['errors']:
            spans = verus_run.diag_lines(d)
            prim = [s for s in spans if s[2]] or spans
            pl = prim[0][0] if prim else 0
            fn = None
            for (a, b, name) in all_ranges:
                if a <= pl <= b:
                    fn = name
                    rng = (a, b)
                    break
            if fn is None:
                # error outside any function we know: treat as undecided material
                res['failures'].append(dict(obligation=None, message=d['message'], gen_line=pl, rendered=d.get('rendered', '')))
                continue
            failing_fns.add(fn)
            # map to a specific obligation
            target = None
            for o in obls:
                if o['function'] != fn or o['kind'] in ('safety', 'lemma', 'template-exec-fn'):
                    continue
                for (ls, le, prim_, label) in spans:
                    if o['gen_lines'][0] <= ls <= o['gen_lines'][1] and o['kind'] != 'termination':
                        target = o
                        break
                    if o['kind'] == 'termination' and 'decreases' in d['message'] and o['gen_lines'][0] <= ls <= o['gen_lines'][1]:
                        target = o
                        break
                if target:
                    break
            if target is None and d['message'].startswith('assertion failed') and gen.origin[pl - 1][0] == 'tpl':
                # a supporting proof step of the template failed: report under the postcondition it serves
                for o in obls:
                    if o['function'] == fn and o['kind'] in ('postcondition', 'loop-ensures', 'loop-invariant', 'loop-invariant_except_break'):
                        target = o
                        break
            if target is None:
                for o in obls:
                    if o['function'] == fn and o['kind'] in ('safety', 'lemma', 'template-exec-fn'):
                        target = o
                        break
            if target is None:
                for o in obls:
                    if o['function'] == fn:
                        target = o
                        break
            target['status'] = 'failed'
            loc = nearest_repo_loc(gen, pl, rng[0], rng[1]) or target['repo_loc']
            if origin_loc(gen, pl) and origin_loc(gen, pl).startswith('tpl') is False:
                loc = origin_loc(gen, pl)
            src_line = ''
            for l in list(range(pl, rng[0] - 1, -1)) + list(range(pl, rng[1] + 1)):
                if gen.origin[l - 1][0] == 'repo':
                    src_line = gen.lines[l - 1].strip()
                    break
            fn_repo_text = ' '.join(gen.lines[l - 1].strip() for l in range(rng[0], rng[1] + 1) if gen.origin[l - 1][0] == 'repo')
            res['failures'].append(dict(obligation=target['id'], function=fn, kind=target['kind'], message=d['message'],
                                        gen_line=pl, repo_loc=loc, source_text=src_line, clause=target['text'], function_repo_text=fn_repo_text,
                                        rendered=d.get('rendered', '')))
        # obligations of a failing function that were not identified as failed are not established
        for o in obls:
            if o['function'] in failing_fns and o['status'] == 'discharged':
                o['status'] = 'not-established'
        if not any(f['obligation'] for f in res['failures']):
            res['state'] = 'undecided'
            res['cause'] = 'verification errors could not be attributed to an obligation: ' + '; '.join(f['message'] for f in res['failures'][:3])
    # per-function solver time
    for o in obls:
        o.pop('fn_range', None)
    res['obligations'] = obls
    res['per_function_smt'] = summ['per_function']
    # canary run (vacuity guard)
    if res['state'] != 'undecided':
        ctext, targets = extract.canary_text(gen, tfuncs)
        cpath = os.path.join(GEN, uid + '_canary.rs')
        with open(cpath, 'w') as f:
            f.write(ctext)
        cr = verus_run.run(cpath, multiple_errors=1)
        hit = set()
        for d in cr['diags']:
            if d.get('level') != 'error':
                continue
            for (ls, le, prim, label) in verus_run.diag_lines(d):
                hit.add(ls)
        bad = [n for (n, l) in targets if l not in hit]
        res['canary'] = dict(targets=len(targets), failed_as_expected=len(targets) - len(bad), vacuous=bad, cmd=cr['cmd'])
        if bad and cr['json'] is not None:
            res['state'] = 'undecided' if res['state'] == 'ok' else res['state']
            res['cause'] = (res['cause'] or '') + ' vacuous: canary assert(false) verified in %s' % bad
        elif cr['json'] is None:
            res['canary']['error'] = 'canary run produced no result'
            if res['state'] == 'ok':
                res['state'] = 'undecided'
                res['cause'] = 'canary run failed to execute'
    n = len(obls)
    res['n_obligations'] = n
    res['n_discharged'] = sum(1 for o in obls if o['status'] == 'discharged')
    if n == 0 and res['state'] == 'ok':
        res['state'] = 'undecided'
        res['cause'] = 'vacuous: zero obligations generated'
    res['wall_s'] = time.time() - t0
    return res
