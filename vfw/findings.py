import json
import os

VERIF = os.path.dirname(os.path.dirname(os.path.abspath(__file__)))
PATH = os.path.join(VERIF, 'known_findings.json')


def load():
    if not os.path.exists(PATH):
        return []
    with open(PATH) as f:
        return json.load(f)


def match_open(prop, failure):
    """an open finding suppresses exactly the violation it names: same property, same obligation id,
    same repository source line text at the failing site"""
    for e in load():
        if e.get('status') != 'open':
            continue
        if e.get('property') != prop:
            continue
        if e.get('obligation') != failure.get('obligation'):
            continue
        if e.get('site_text') and e['site_text'].strip() != (failure.get('source_text') or '').strip():
            continue
        return e
    return None
