import json
import os

VERIF = os.path.dirname(os.path.dirname(os.path.abspath(__file__)))
PATH = os.path.join(VERIF, 'known_findings.json')


def load():
    if not os.path.exists(PATH):
        return []
    with open(PATH) as f:
        return json.load(f)


def match_open(prop, failure):
    """an open finding suppresses exactly the violation it names: same property, same obligation id, and the
    repository text of the failing function exactly as recorded (any edit of that code makes it a new violation)"""
    for e in load():
        if e.get('status') != 'open':
            continue
        if e.get('property') != prop:
            continue
        sites = e.get('sites') or {e.get('obligation'): e.get('site_text')}
        ob = failure.get('obligation')
        if ob not in sites:
            continue
        want = sites[ob]
        if want and want.strip() != (failure.get('source_text') or '').strip():
            continue
        bodies = e.get('site_bodies') or {}
        if ob in bodies and bodies[ob].split() != (failure.get('function_repo_text') or '').split():
            continue
        return e
    return None


def open_cases(prop=None):
    """witness-case tags of the open findings (of one property, or of all when prop is None): the native cross-check
    and the witness search skip exactly these cases - a recorded finding is known whichever property's check runs the
    generator that would rediscover it"""
    out = []
    for e in load():
        if e.get('status') == 'open' and (prop is None or e.get('property') == prop):
            out.extend(e.get('witness_cases', []))
    return out
