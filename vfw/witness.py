"""Witness generators: after a verifier reports a failed obligation (Verus gives no counterexample),
search small concrete inputs and run them through the REAL function (driver crate built from /repo's
working tree) looking for one that contradicts the failed contract or panics.  A found input makes the
report a replayable violation; none found -> the violation is still reported, `no-failing-input-found`.
The expected values here are written from the unit's *contract*, independently of the code."""
import itertools
import os
import subprocess

VERIF = os.path.dirname(os.path.dirname(os.path.abspath(__file__)))
DRIVER_DIR = os.path.join(VERIF, 'driver')
TARGET = os.path.join(VERIF, '.cache', 'driver-target')
BIN = os.path.join(TARGET, 'debug', 'verif-driver')

_built = {'ok': None, 'log': ''}


def build_driver():
    if _built['ok'] is not None:
        return _built['ok']
    env = dict(os.environ, CARGO_NET_OFFLINE='true', CARGO_TARGET_DIR=TARGET)
    lock = os.path.join(DRIVER_DIR, 'Cargo.lock')
    if not os.path.exists(lock):
        import shutil
        shutil.copy('/repo/Cargo.lock', lock)
    p = subprocess.run(['cargo', 'build', '--offline', '-q'], cwd=DRIVER_DIR, env=env, stdout=subprocess.PIPE,
                       stderr=subprocess.STDOUT, text=True, timeout=1800)
    _built['ok'] = (p.returncode == 0)
    _built['log'] = p.stdout[-2000:]
    return _built['ok']


def drive(cmd, inputs):
    """inputs: list of bytes -> list of result lines"""
    data = '\n'.join(i.hex() for i in inputs) + '\n'
    p = subprocess.run([BIN, cmd], input=data, stdout=subprocess.PIPE, stderr=subprocess.PIPE, text=True, timeout=900)
    out = p.stdout.split('\n')
    return out[:len(inputs)]


# ---------------------------------------------------------------- U1 varint
def ref_read_u64(buf):
    """contract of read_u64: first byte without continuation bit must come within the first ten bytes"""
    val = 0
    for i, b in enumerate(buf[:10]):
        val |= ((b & 0x7F) << (7 * i)) & 0xFFFFFFFFFFFFFFFF
        if b & 0x80 == 0:
            return ('OK', val, i + 1)
    return ('ERR',)


def gen_varint_inputs(tier):
    sym = [0x00, 0x01, 0x7F, 0x80, 0xFF]
    out = [b'']
    for n in range(1, 5 if tier == 'quick' else 7):
        for t in itertools.product(sym, repeat=n):
            out.append(bytes(t))
    for k in range(4, 14):
        for c in (0x80, 0xFF, 0x81):
            out.append(bytes([c] * k))
            for last in (0x00, 0x01, 0x7F):
                out.append(bytes([c] * k + [last]))
                out.append(bytes([c] * k + [last, 0x80]))
    return out


def w_read_u64(failure, tier):
    ins = gen_varint_inputs(tier)
    res = drive('read_u64', ins)
    for i, r in zip(ins, res):
        exp = ref_read_u64(i)
        exps = 'OK (%d, %d)' % (exp[1], exp[2]) if exp[0] == 'OK' else 'ERR'
        bad = r.startswith('PANIC') or (exp[0] == 'OK' and r != exps) or (exp[0] == 'ERR' and not r.startswith('ERR'))
        if bad:
            return dict(found=True, cmd='%s read_u64 <<< %s' % (BIN, i.hex()), input='bytes ' + i.hex(), observed=r,
                        expected=exps + '  (contract: value/length of the LEB128 prefix, Err when no terminator within 10 bytes; never a panic)')
    return dict(found=False, note='read_u64: %d byte strings tried (all strings over {00,01,7f,80,ff} up to length %d, plus runs of 4..13 continuation bytes), none contradicts the contract' % (len(ins), 4 if tier == 'quick' else 6))


def w_write_u64(failure, tier):
    vals = [0, 1, 0x7F, 0x80, 0x3FFF, 0x4000, 2 ** 32 - 1, 2 ** 32, 2 ** 56 - 1, 2 ** 56, 2 ** 63 - 1, 2 ** 63, 2 ** 64 - 1]
    vals += [(1 << k) for k in range(0, 64, 3)] + [(1 << k) - 1 for k in range(1, 64, 3)]
    ins = []
    for v in vals:
        for rest in (b'', b'\x00', b'\x80\x80', b'\xff'):
            ins.append(v.to_bytes(8, 'little') + rest)
    res = drive('write_read_u64', ins)
    for i, r in zip(ins, res):
        v = int.from_bytes(i[:8], 'little')
        n = 1
        t = v
        while t >= 0x80:
            t >>= 7
            n += 1
        exps = 'OK v=%d decoded=(%d, %d) enc_len=%d' % (v, v, n, n)
        if r != exps:
            return dict(found=True, cmd='%s write_read_u64 <<< %s' % (BIN, i.hex()), input='value %d followed by bytes %s' % (v, i[8:].hex()),
                        observed=r, expected=exps)
    return dict(found=False, note='write_u64/read_u64 round trip: %d (value, rest) pairs tried, all round-trip' % len(ins))


GENERATORS = {
    ('U1', 'read_u64'): w_read_u64,
    ('U1', 'write_u64'): w_write_u64,
    ('U1', 'write_u32_var'): w_write_u64,
}


def search(prop, failure, unit_res, tier):
    key = (unit_res['unit'], failure.get('function'))
    g = GENERATORS.get(key)
    if g is None:
        return None
    if not build_driver():
        return dict(found=False, note='native driver failed to build from /repo: ' + _built['log'][-600:])
    return g(failure, tier)
