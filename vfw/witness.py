"""Witness generators: after a verifier reports a failed obligation (Verus gives no counterexample),
search small concrete inputs and run them through the REAL function (driver crate built from /repo's
working tree) looking for one that contradicts the failed contract or panics.  A found input makes the
report a replayable violation; none found -> the violation is still reported, `no-failing-input-found`.
The expected values here are written from the unit's *contract*, independently of the code."""
import itertools
import os
import subprocess

VERIF = os.path.dirname(os.path.dirname(os.path.abspath(__file__)))
DRIVER_DIR = os.path.join(VERIF, 'driver')
TARGET = os.path.join(VERIF, '.cache', 'driver-target')
BIN = os.path.join(TARGET, 'debug', 'verif-driver')

_built = {'ok': None, 'log': ''}


def build_driver():
    if _built['ok'] is not None:
        return _built['ok']
    env = dict(os.environ, CARGO_NET_OFFLINE='true', CARGO_TARGET_DIR=TARGET)
    lock = os.path.join(DRIVER_DIR, 'Cargo.lock')
    if not os.path.exists(lock):
        import shutil
        shutil.copy('/repo/Cargo.lock', lock)
    p = subprocess.run(['cargo', 'build', '--offline', '-q'], cwd=DRIVER_DIR, env=env, stdout=subprocess.PIPE,
                       stderr=subprocess.STDOUT, text=True, timeout=1800)
    _built['ok'] = (p.returncode == 0)
    _built['log'] = p.stdout[-2000:]
    return _built['ok']


def drive(cmd, inputs):
    """inputs: list of bytes -> list of result lines"""
    data = '\n'.join(i.hex() for i in inputs) + '\n'
    p = subprocess.run([BIN, cmd], input=data, stdout=subprocess.PIPE, stderr=subprocess.PIPE, text=True, timeout=900)
    out = p.stdout.split('\n')
    return out[:len(inputs)]


# ---------------------------------------------------------------- U1 varint
def ref_read_u64(buf):
    """contract of read_u64: first byte without continuation bit must come within the first ten bytes"""
    val = 0
    for i, b in enumerate(buf[:10]):
        val |= ((b & 0x7F) << (7 * i)) & 0xFFFFFFFFFFFFFFFF
        if b & 0x80 == 0:
            return ('OK', val, i + 1)
    return ('ERR',)


def gen_varint_inputs(tier):
    sym = [0x00, 0x01, 0x7F, 0x80, 0xFF]
    out = [b'']
    for n in range(1, 5 if tier == 'quick' else 7):
        for t in itertools.product(sym, repeat=n):
            out.append(bytes(t))
    for k in range(4, 14):
        for c in (0x80, 0xFF, 0x81):
            out.append(bytes([c] * k))
            for last in (0x00, 0x01, 0x7F):
                out.append(bytes([c] * k + [last]))
                out.append(bytes([c] * k + [last, 0x80]))
    return out


def w_read_u64(failure, tier):
    ins = gen_varint_inputs(tier)
    res = drive('read_u64', ins)
    for i, r in zip(ins, res):
        exp = ref_read_u64(i)
        exps = 'OK (%d, %d)' % (exp[1], exp[2]) if exp[0] == 'OK' else 'ERR'
        bad = r.startswith('PANIC') or (exp[0] == 'OK' and r != exps) or (exp[0] == 'ERR' and not r.startswith('ERR'))
        if bad:
            return dict(found=True, cmd='%s read_u64 <<< %s' % (BIN, i.hex()), input='bytes ' + i.hex(), observed=r,
                        expected=exps + '  (contract: value/length of the LEB128 prefix, Err when no terminator within 10 bytes; never a panic)')
    return dict(found=False, note='read_u64: %d byte strings tried (all strings over {00,01,7f,80,ff} up to length %d, plus runs of 4..13 continuation bytes), none contradicts the contract' % (len(ins), 4 if tier == 'quick' else 6))


def w_write_u64(failure, tier):
    vals = [0, 1, 0x7F, 0x80, 0x3FFF, 0x4000, 2 ** 32 - 1, 2 ** 32, 2 ** 56 - 1, 2 ** 56, 2 ** 63 - 1, 2 ** 63, 2 ** 64 - 1]
    vals += [(1 << k) for k in range(0, 64, 3)] + [(1 << k) - 1 for k in range(1, 64, 3)]
    ins = []
    for v in vals:
        for rest in (b'', b'\x00', b'\x80\x80', b'\xff'):
            ins.append(v.to_bytes(8, 'little') + rest)
    res = drive('write_read_u64', ins)
    for i, r in zip(ins, res):
        v = int.from_bytes(i[:8], 'little')
        n = 1
        t = v
        while t >= 0x80:
            t >>= 7
            n += 1
        exps = 'OK v=%d decoded=(%d, %d) enc_len=%d' % (v, v, n, n)
        if r != exps:
            return dict(found=True, cmd='%s write_read_u64 <<< %s' % (BIN, i.hex()), input='value %d followed by bytes %s' % (v, i[8:].hex()),
                        observed=r, expected=exps)
    return dict(found=False, note='write_u64/read_u64 round trip: %d (value, rest) pairs tried, all round-trip' % len(ins))


# ---------------------------------------------------------------- U2 WAL
import json as _json
import zlib


def leb(n):
    out = bytearray()
    while n >= 0x80:
        out.append((n & 0x7F) | 0x80)
        n >>= 7
    out.append(n)
    return bytes(out)


def ref_frame(t, payload):
    """the format the contract states: varint(len) type payload crc32le(type+payload)"""
    return leb(len(payload)) + bytes([t]) + payload + zlib.crc32(bytes([t]) + payload).to_bytes(4, 'little')


def ref_parse(data):
    """parse_frames + decode of the contract (undecodable payload / unknown type: left open -> returns None = don't compare)"""
    out = []
    cur = 0
    while cur < len(data):
        r = ref_read_u64(data[cur:])
        if r[0] != 'OK':
            break
        ln, nb = r[1], r[2]
        if cur + nb >= len(data) or cur + nb + 1 + ln + 4 > len(data):
            break
        t = data[cur + nb]
        p = data[cur + nb + 1:cur + nb + 1 + ln]
        c = data[cur + nb + 1 + ln:cur + nb + 1 + ln + 4]
        if zlib.crc32(bytes([t]) + p).to_bytes(4, 'little') != c:
            break
        cur += nb + 1 + ln + 4
        if t == 1:
            try:
                d = _json.loads(p.decode('utf-8'))
            except Exception:
                return None
            out.append('Add(%s)' % _json.dumps(d, separators=(',', ':'), sort_keys=True))
        elif t == 2 and len(p) == 0:
            out.append('Commit')
        elif t == 3:
            try:
                out.append('Del("%s")' % p.decode('utf-8'))
            except Exception:
                return None
        else:
            return None
    return out


WAL_OPS = [
    (1, b'{"fields":{"_id":"a","n":1}}'),
    (3, b'a'),
    (2, b''),
    (1, b'{"fields":{"_id":"b"}}'),
    (3, b'xyz'),
]


def wal_logs(tier):
    """(description, bytes) cases: valid logs, every truncation, single-byte flips"""
    import itertools as it
    cases = []
    seqs = []
    for n in (1, 2, 3):
        for combo in it.product(range(len(WAL_OPS)), repeat=n):
            seqs.append([WAL_OPS[i] for i in combo])
            if len(seqs) > (30 if tier == 'quick' else 155):
                break
    for ops in seqs:
        log = b''.join(ref_frame(t, p) for (t, p) in ops)
        cases.append(('intact frames %s' % [t for (t, _) in ops], log))
    base = [WAL_OPS[0], WAL_OPS[1], WAL_OPS[2], WAL_OPS[3]]
    log = b''.join(ref_frame(t, p) for (t, p) in base)
    for k in range(len(log)):
        cases.append(('log of 4 frames cut at byte %d' % k, log[:k]))
    for k in range(len(log)):
        for mask in (0x01, 0x80, 0xFF):
            b = bytearray(log)
            b[k] ^= mask
            cases.append(('log of 4 frames, byte %d xor %#x' % (k, mask), bytes(b)))
    for k in (9, 10, 11, 12):
        cases.append(('%d continuation bytes' % k, b'\x80' * k))
        cases.append(('valid frame then %d continuation bytes' % k, ref_frame(2, b'') + b'\xff' * k))
    return cases


def w_replay(failure, tier):
    cases = wal_logs(tier)
    res = drive('wal_replay', [c[1] for c in cases])
    for (desc, data), r in zip(cases, res):
        exp = ref_parse(data)
        if r.startswith('PANIC') or r.startswith('ERR'):
            return dict(found=True, cmd='%s wal_replay <<< %s' % (BIN, data.hex()), input='%s: %s' % (desc, data.hex()), observed=r,
                        expected='OK with the records of the intact prefix (replay never fails or panics because of log content)')
        if exp is None:
            continue
        got = r[3:].strip()
        # normalise Add(json) key order
        exps = ' '.join(exp)
        if normalise(got) != normalise(exps):
            return dict(found=True, cmd='%s wal_replay <<< %s' % (BIN, data.hex()), input='%s: %s' % (desc, data.hex()), observed=r,
                        expected='OK ' + exps + '   (decode of parse_frames(bytes): exactly the intact, checksum-valid prefix)')
    return dict(found=False, note='Wal::replay: %d logs tried (intact op sequences, every truncation and single-byte xor 0x01/0x80/0xff of a 4-frame log, long continuation runs); all agree with the reference parse' % len(cases))


def normalise(s):
    import re as _re
    def fix(m):
        try:
            return 'Add(%s)' % _json.dumps(_json.loads(m.group(1)), separators=(',', ':'), sort_keys=True)
        except Exception:
            return m.group(0)
    return _re.sub(r'Add\((\{.*?\})\)(?= |$)', fix, s)


def w_append(failure, tier):
    import itertools as it
    cases = []
    for n in (1, 2, 3):
        for combo in it.product(range(len(WAL_OPS)), repeat=n):
            cases.append([WAL_OPS[i] for i in combo])
    cases.append([(3, b'k' * 200)])
    cases.append([(1, ('{"fields":{"_id":"%s"}}' % ('z' * 20000)).encode())])
    ins = [b''.join(bytes([t]) + len(p).to_bytes(2, 'little') + p for (t, p) in ops) for ops in cases]
    res = drive('wal_append', ins)
    for ops, r in zip(cases, res):
        exp = b''.join(ref_frame(t, p) for (t, p) in ops)
        # add payloads are re-serialised by serde_json; compare via parse instead when an add is present
        if any(t == 1 for (t, _) in ops):
            if not r.startswith('OK '):
                return dict(found=True, cmd='%s wal_append' % BIN, input=str(ops)[:300], observed=r, expected='OK <frames>')
            got = bytes.fromhex(r[3:].strip())
            gp = ref_parse(got)
            ep = ref_parse(exp)
            if gp is None or normalise(' '.join(gp)) != normalise(' '.join(ep)):
                return dict(found=True, cmd='%s wal_append <<< ops' % BIN, input='ops %s' % str([(t, p[:40]) for (t, p) in ops]), observed='log bytes %s which the reference parser reads as %s' % (got.hex()[:400], gp),
                            expected='a log the reference parser reads as %s (frame = varint(len) type payload crc32le(type+payload))' % ep)
        elif r != 'OK ' + exp.hex():
            return dict(found=True, cmd='%s wal_append <<< ops' % BIN, input='ops %s' % str(ops)[:300], observed=r[:600], expected='OK ' + exp.hex()[:600])
    return dict(found=False, note='Wal::append_*: %d op sequences tried, bytes equal the reference framing' % len(cases))


def w_pending(failure, tier):
    import itertools as it
    cases = []
    for n in (0, 1, 2, 3, 4):
        for combo in it.product(range(len(WAL_OPS)), repeat=n):
            cases.append([WAL_OPS[i] for i in combo])
    ins = [b''.join(ref_frame(t, p) for (t, p) in ops) for ops in cases]
    res = drive('wal_pending', ins)
    for ops, data, r in zip(cases, ins, res):
        exp = []
        for e in ref_parse(data):
            if e == 'Commit':
                exp = []
            else:
                exp.append(e)
        exps = ' '.join(exp)
        if not r.startswith('OK') or normalise(r[3:].strip()) != normalise(exps):
            return dict(found=True, cmd='%s wal_pending <<< %s' % (BIN, data.hex()), input='log of ops %s' % [t for (t, _) in ops], observed=r,
                        expected='OK ' + exps + '  (the add/delete entries after the last commit marker, in order)')
    return dict(found=False, note='Wal::last_pending_ops: %d logs tried, all agree' % len(cases))


# ---------------------------------------------------------------- generic search driver
REQ_BASE = {"limit": 1000, "return_stored": False, "highlight_field": None, "execution": "bm25"}


def drive_search(case):
    r = drive('search', [_json.dumps(case).encode()])[0]
    if not r.startswith('OK '):
        return None, r
    return _json.loads(r[3:]), None


# ---------------------------------------------------------------- U11 phrase / slop
def ref_phrase(tokens, terms, slop):
    """documented semantics: one position per phrase term, strictly increasing, gaps sum <= slop"""
    pos = [[i for i, t in enumerate(tokens) if t == term] for term in terms]
    def go(idx, prev, rem):
        if idx >= len(pos):
            return True
        for p in pos[idx]:
            if p <= prev:
                continue
            gap = p - prev - 1
            if gap <= rem and go(idx + 1, p, rem - gap):
                return True
        return False
    if any(len(p) == 0 for p in pos):
        return False
    return any(go(1, st, slop) for st in pos[0])


def w_phrase(failure, tier):
    import itertools as it
    docs = []
    words = ['aa', 'bb', 'cc']
    fill = 'zz'
    n = 0
    # docs: aa (g1 fillers) bb (g2 fillers) cc , plus reorderings and repeated terms
    for g1 in range(0, 4):
        for g2 in range(0, 4):
            toks = ['aa'] + [fill] * g1 + ['bb'] + [fill] * g2 + ['cc']
            docs.append(('d%d' % n, toks)); n += 1
    for toks in (['cc', 'bb', 'aa'], ['aa', 'aa', 'bb', 'cc'], ['aa', 'bb', 'zz', 'bb', 'cc'], ['bb', 'aa', 'zz', 'zz', 'bb', 'zz', 'cc', 'aa', 'bb', 'cc'],
                 ['aa', 'zz', 'zz', 'cc', 'bb', 'cc'], ['aa', 'bb'], ['aa', 'cc']):
        docs.append(('d%d' % n, toks)); n += 1
    reqs = []
    meta = []
    for terms in (['aa', 'bb'], ['aa', 'bb', 'cc'], ['bb', 'cc'], ['aa', 'cc'], ['bb', 'bb', 'cc']):
        for slop in range(0, 5):
            reqs.append(dict(REQ_BASE, query={"type": "phrase", "field": "body", "terms": terms, "slop": slop}))
            meta.append((terms, slop))
    case = {"schema": None, "batches": [[{"_id": i, "body": ' '.join(t)} for (i, t) in docs]], "requests": reqs}
    out, err = drive_search(case)
    if out is None:
        return dict(found=False, note='search driver failed: %s' % err)
    for (terms, slop), o in zip(meta, out):
        if 'ok' not in o:
            return dict(found=True, cmd='%s search' % BIN, input='phrase %s slop %d over the fixed corpus' % (terms, slop), observed=str(o)[:400], expected='a result')
        got = sorted(h['doc_id'] for h in o['ok']['hits'])
        exp = sorted(i for (i, t) in docs if ref_phrase(t, terms, slop))
        if got != exp:
            d = [x for x in set(got) ^ set(exp)][0]
            toks = dict(docs)[d]
            return dict(found=True, cmd='%s search <<< hex(json)' % BIN,
                        input='index one document body=%r; phrase query terms=%s slop=%d' % (' '.join(toks), terms, slop),
                        observed='document %s' % ('matched' if d in got else 'did not match'),
                        expected='document %s (positions one per term, increasing, total gap <= slop)' % ('must not match' if d in got else 'must match'))
    return dict(found=False, note='phrase search: %d documents x %d (terms, slop) queries agree with the slop-chain reference' % (len(docs), len(reqs)))


# ---------------------------------------------------------------- U10 boolean semantics
def w_bool(failure, tier):
    import itertools as it
    import random
    rnd = random.Random(int(os.environ.get('VERIF_SEED', '0') or 0))
    terms = ['t1', 't2', 't3', 't4']
    docs = []
    for k, bits in enumerate(it.product([0, 1], repeat=4)):
        toks = [t for t, b in zip(terms, bits) if b] + ['common']
        docs.append(('d%d' % k, set(toks)))

    def leaf():
        return {"type": "term", "field": "body", "value": rnd.choice(terms)}

    def gen(depth):
        c = rnd.random()
        if depth == 0 or c < 0.3:
            return leaf()
        if c < 0.45:
            return {"type": "dis_max", "queries": [gen(depth - 1) for _ in range(rnd.randint(1, 3))]}
        if c < 0.55:
            ws = rnd.sample(terms, rnd.randint(1, 3))
            q = ' '.join(('-' + w) if rnd.random() < 0.3 else w for w in ws)
            return {"type": "query_string", "query": q, "fields": ["body"]}
        node = {"type": "bool",
                "must": [gen(depth - 1) for _ in range(rnd.choice([0, 0, 1, 2]))],
                "should": [gen(depth - 1) for _ in range(rnd.choice([0, 1, 2, 3]))],
                "must_not": [gen(depth - 1) for _ in range(rnd.choice([0, 0, 1]))]}
        if rnd.random() < 0.3:
            node["minimum_should_match"] = rnd.randint(0, 3)
        if not (node["must"] or node["should"] or node["must_not"]):
            node["should"] = [leaf()]
        return node

    def ev(q, toks):
        t = q["type"]
        if t == "term":
            return q["value"] in toks
        if t == "dis_max":
            return any(ev(c, toks) for c in q["queries"])
        if t == "query_string":
            pos = [w for w in q["query"].split() if not w.startswith('-')]
            neg = [w[1:] for w in q["query"].split() if w.startswith('-')]
            if any(w in toks for w in neg):
                return False
            if not pos:
                return bool(neg)
            return sum(1 for w in pos if w in toks) >= 1
        must, should, must_not = q.get("must", []), q.get("should", []), q.get("must_not", [])
        if not all(ev(c, toks) for c in must):
            return False
        if any(ev(c, toks) for c in must_not):
            return False
        cnt = sum(1 for c in should if ev(c, toks))
        msm = q.get("minimum_should_match")
        if msm is None:
            msm = 1 if (should and not must) else 0
        return cnt >= msm

    # candidate generation needs a positive clause: wrap as must:[common-term, Q] so every doc is a candidate
    queries = [gen(2) for _ in range(60 if tier == 'quick' else 400)]
    # the shapes the property names explicitly
    queries += [{"type": "bool", "must": [leaf()], "should": [leaf(), leaf()]},
                {"type": "bool", "should": [leaf()], "must_not": [leaf()]},
                {"type": "bool", "should": [leaf(), leaf()], "minimum_should_match": 2}]
    reqs = [dict(REQ_BASE, query={"type": "bool", "must": [{"type": "term", "field": "body", "value": "common"}, q]}) for q in queries]
    case = {"schema": None, "batches": [[{"_id": i, "body": ' '.join(sorted(t))} for (i, t) in docs]], "requests": reqs}
    out, err = drive_search(case)
    if out is None:
        return dict(found=False, note='search driver failed: %s' % err)
    for q, o in zip(queries, out):
        if 'ok' not in o:
            continue
        got = sorted(h['doc_id'] for h in o['ok']['hits'])
        exp = sorted(i for (i, t) in docs if ev(q, t))
        if got != exp:
            d = sorted(set(got) ^ set(exp))[0]
            return dict(found=True, cmd='%s search <<< hex(json)' % BIN,
                        input='documents over tokens {t1..t4}; query must:[term common, Q] with Q=%s' % _json.dumps(q),
                        observed='document %s with tokens %s %s' % (d, sorted(dict(docs)[d]), 'matched' if d in got else 'did not match'),
                        expected='%s under the documented bool/dis_max/query_string semantics' % ('no match' if d in got else 'a match'))
    return dict(found=False, note='boolean matcher: %d random query trees (depth <= 3) over 16 documents agree with the documented semantics' % len(queries))


# ---------------------------------------------------------------- U9 cursor strings
def w_cursor(failure, tier):
    """arbitrary cursor strings through IndexReader::search (score cursors and sort cursors): must be Ok or Err, never a panic"""
    docs = [{"_id": "d%d" % i, "body": "alpha beta"} for i in range(4)]
    schema = None
    cands = ['', 'zz', '0' * 42, 'g' * 42, 'A\u00e9' + 'A' * 39, '\u00e9' * 21, 'A' * 41 + '\u00e9'[:1], '0' * 41 + '\u20ac'[:1], '\u20ac' * 14,
             'A\u00e9A', '\u00e9\u00e9', 'ab\u00e9c', '7b7d', '0' * 40 + '\u00e9']
    reqs = []
    meta = []
    for c in cands:
        reqs.append(dict(REQ_BASE, query="alpha", limit=1, cursor=c)); meta.append(('score cursor', c))
        reqs.append(dict(REQ_BASE, query="alpha", limit=1, cursor=c, sort=[{"field": "_score", "order": "asc"}])); meta.append(('sort cursor', c))
    out, err = drive_search({"schema": schema, "batches": [docs], "requests": reqs})
    if out is None:
        return dict(found=False, note='search driver failed: %s' % err)
    for (kind, c), o in zip(meta, out):
        if 'panic' in o:
            return dict(found=True, cmd='%s search <<< hex(json)' % BIN, input='search request with %s %r (%d bytes)' % (kind, c, len(c.encode())),
                        observed='PANIC ' + o['panic'][:300], expected='Ok or Err: a search never panics on any cursor string')
    return dict(found=False, note='cursor decoding: %d cursor strings x 2 cursor kinds through IndexReader::search, none panics' % len(cands))


# ---------------------------------------------------------------- U6 highlight fragments
def w_highlight(failure, tier):
    """documents with multi-byte text, highlight requests with small fragment sizes: every returned fragment must be
    non-empty, contain a tagged match, and (tags removed) be a substring of the stored text no longer than fragment_size"""
    texts = []
    for pre in range(0, 9):
        for ch in ('\u00e9', '\u4e2d', '\U0001F600'):
            texts.append(ch * pre + ' alpha ' + ch * 5)
            texts.append('x' + ch * pre + ' alpha')
    docs = [{"_id": "d%d" % i, "body": t} for i, t in enumerate(texts)]
    reqs = []
    sizes = [10, 11, 12, 13, 14, 15, 16, 20]
    for fs in sizes:
        reqs.append(dict(REQ_BASE, query="alpha", return_stored=True,
                         highlight={"fields": {"body": {"pre_tag": "[", "post_tag": "]", "fragment_size": fs, "number_of_fragments": 2}}}))
    out, err = drive_search({"schema": None, "batches": [docs], "requests": reqs})
    if out is None:
        return dict(found=False, note='search driver failed: %s' % err)
    n = 0
    for fs, o in zip(sizes, out):
        if 'panic' in o:
            return dict(found=True, cmd='%s search' % BIN, input='highlight fragment_size %d' % fs, observed='PANIC ' + o['panic'][:200], expected='no panic')
        if 'ok' not in o:
            continue
        for h in o['ok']['hits']:
            text = dict((d['_id'], d['body']) for d in docs)[h['doc_id']]
            for frag in (h.get('highlights') or {}).get('body', []):
                n += 1
                plain = frag.replace('[', '').replace(']', '')
                bad = None
                if frag == '':
                    bad = 'an EMPTY fragment'
                elif '[' not in frag:
                    bad = 'a fragment without a tagged match: %r' % frag
                elif plain not in text:
                    bad = 'a fragment that is not a substring of the text: %r' % frag
                elif len(plain.encode()) > fs:
                    bad = 'a fragment of %d bytes > fragment_size' % len(plain.encode())
                if bad:
                    return dict(found=True, cmd='%s search <<< hex(json)' % BIN,
                                input='document body=%r (%d bytes); query alpha; highlight body fragment_size=%d (match length 5, so fragment_size >= 2*5)' % (text, len(text.encode()), fs),
                                observed='highlights.body contains ' + bad,
                                expected='every fragment non-empty, containing a tagged match, a substring of the text, at most fragment_size bytes')
    # second corpus: tokens that do not start / end with a word character (whitespace tokenizer), cut so that the match
    # sits at the very end or the very start of the window - the context a `\b` needs is then outside the fragment
    schema = {"doc_id_field": "_id", "analyzers": [{"name": "ws", "tokenizer": "whitespace", "filters": []}],
              "text_fields": [{"name": "body", "analyzer": "ws", "stored": True, "indexed": True}],
              "keyword_fields": [], "numeric_fields": [], "nested_fields": []}
    docs2 = [{"_id": "w0", "body": "in c++11 and c++"}, {"_id": "w1", "body": "see c++ and ++c and c++"}, {"_id": "w2", "body": "the ++c++ one"},
             {"_id": "w3", "body": "\u00e9\u00e9 c++\u00e9 and c++ \u4e2d\u4e2d c++"}]
    sizes2 = [6, 7, 8, 9, 10, 12]
    reqs2 = []
    for term in ("c++", "++c"):
        for fs in sizes2:
            for nf in (1, 3):
                reqs2.append((term, fs, dict(REQ_BASE, query={"type": "term", "field": "body", "value": term}, return_stored=True,
                             highlight={"fields": {"body": {"pre_tag": "[", "post_tag": "]", "fragment_size": fs, "number_of_fragments": nf}}})))
    out2, err = drive_search({"schema": schema, "batches": [docs2], "requests": [r for (_, _, r) in reqs2]})
    if out2 is None:
        return dict(found=False, note='search driver failed: %s' % err)
    n2 = 0
    for (term, fs, _), o in zip(reqs2, out2):
        if 'panic' in o:
            return dict(found=True, cmd='%s search' % BIN, input='highlight %r fragment_size %d' % (term, fs), observed='PANIC ' + o['panic'][:200], expected='no panic')
        if 'ok' not in o:
            continue
        for h in o['ok']['hits']:
            text = dict((d['_id'], d['body']) for d in docs2)[h['doc_id']]
            for frag in (h.get('highlights') or {}).get('body', []):
                n2 += 1
                plain = frag.replace('[', '').replace(']', '')
                bad = None
                if frag == '':
                    bad = 'an EMPTY fragment'
                elif '[' not in frag:
                    bad = 'a fragment without a tagged match: %r' % frag
                elif plain not in text:
                    bad = 'a fragment that is not a substring of the text: %r' % frag
                elif len(plain.encode()) > fs:
                    bad = 'a fragment of %d bytes > fragment_size' % len(plain.encode())
                if bad:
                    return dict(found=True, cmd='%s search <<< hex(json)' % BIN,
                                input='text field body with a whitespace analyzer; document body=%r; term query %r; highlight body fragment_size=%d (match length 3, so fragment_size >= 2*3)' % (text, term, fs),
                                observed='highlights.body contains ' + bad,
                                expected='every fragment non-empty, containing a tagged match, a substring of the text, at most fragment_size bytes')
    return dict(found=False, note='highlight: %d fragments over %d multi-byte documents x %d fragment sizes, and %d fragments over %d documents with tokens that end in non-word characters, are all well-formed' % (n, len(docs), len(sizes), n2, len(docs2)))


# ---------------------------------------------------------------- U57 range buckets across segments
def w_range_layout(failure, tier):
    """range / date_range aggregations whose ranges share a key (the same label twice, or the same unkeyed from/to twice),
    in one segment and spread over several: bucket i stands for range i of the request in every layout"""
    add = {"numeric_fields": [{"name": "n", "i64": True, "fast": True, "stored": True}]}
    vals = [1, 2, 3, 7, 8, 12, 13, 14, 15, 20]
    docs = [{"_id": "d%d" % i, "body": "alpha", "n": v} for i, v in enumerate(vals)]
    layouts = [[docs], [docs[:3], docs[3:6], docs[6:]], [docs[:5], docs[5:]], [[d] for d in docs]]
    cases = [{"type": "range", "field": "n", "keyed": False, "ranges": [{"key": "x", "to": 5.0}, {"key": "x", "from": 5.0, "to": 10.0}, {"key": "y", "from": 10.0}]},
             {"type": "range", "field": "n", "keyed": False, "ranges": [{"from": 0.0, "to": 10.0}, {"from": 0.0, "to": 10.0}, {"from": 10.0}]},
             {"type": "range", "field": "n", "keyed": False, "ranges": [{"key": "a", "to": 5.0}, {"key": "b", "from": 5.0, "to": 10.0}, {"key": "a", "from": 10.0}]},
             {"type": "range", "field": "n", "keyed": True, "ranges": [{"key": "lo", "to": 10.0}, {"key": "hi", "from": 10.0}]}]
    n = 0
    for agg in cases:
        res = []
        for lay in layouts:
            r = dict(REQ_BASE, query={"type": "match_all"}, limit=1, aggs={"r": agg})
            out, err = drive_search({"schema": None, "schema_add": add, "batches": lay, "requests": [r]})
            if out is None or 'ok' not in out[0]:
                return dict(found=False, note='search driver failed: %s' % (err or str(out)[:300]))
            a = out[0]['ok']['aggregations']['r']
            b = a.get('buckets')
            if isinstance(b, dict):
                b = [dict(v, key=k) for k, v in sorted(b.items())]
            res.append((len(lay), [(_json.dumps(x.get('key'), sort_keys=True), x['doc_count']) for x in (b or [])]))
            n += 1
        if any(r[1] != res[0][1] for r in res):
            return dict(found=True, cmd='%s search <<< hex(json)' % BIN, case='range-buckets-share-a-key',
                        input='10 documents n = %s; %s' % (vals, _json.dumps(agg)),
                        observed='; '.join('%d segment(s): %s' % r for r in res[1:]), expected='%s (the single-segment answer: one bucket per range of the request, in request order)' % res[0][1])
    return dict(found=False, note='range buckets: %d (aggregation, layout) combinations give the single-segment answer' % n)


# ---------------------------------------------------------------- U59 column upgrade
def w_column_upgrade(failure, tier):
    """one batch in which a fast field first takes single values (with gaps) and then a list: the column is upgraded in the
    middle of the batch; every document must still be found under exactly its own values"""
    add = {"numeric_fields": [{"name": "n", "i64": True, "fast": True, "stored": True}, {"name": "x", "i64": False, "fast": True, "stored": True}],
           "keyword_fields": [{"name": "tag", "stored": True, "indexed": True, "fast": True}]}
    rows = [(5, 0.5, "a"), (None, None, None), (7, 1.5, "b"), (None, 2.5, "c"), (9, None, None), ([1, 2], [3.5, 4.5], ["d", "a"]), (11, 5.5, "e"), ([], [], [])]
    docs = []
    for i, (n, x, t) in enumerate(rows):
        d = {"_id": "d%d" % i, "body": "alpha"}
        if n is not None and n != []:
            d["n"] = n
        if x is not None and x != []:
            d["x"] = x
        if t is not None and t != []:
            d["tag"] = t
        docs.append(d)
    def vals(v):
        return [] if v is None else (v if isinstance(v, list) else [v])
    reqs, expect, what = [], [], []
    for v in (1, 2, 5, 7, 9, 11, 0):
        reqs.append(dict(REQ_BASE, query={"type": "match_all"}, filter={"I64Range": {"field": "n", "min": v, "max": v}}))
        expect.append(sorted("d%d" % i for i, r in enumerate(rows) if v in vals(r[0])))
        what.append('n = %d' % v)
    for v in (0.5, 1.5, 2.5, 3.5, 4.5, 5.5):
        reqs.append(dict(REQ_BASE, query={"type": "match_all"}, filter={"F64Range": {"field": "x", "min": v, "max": v}}))
        expect.append(sorted("d%d" % i for i, r in enumerate(rows) if v in vals(r[1])))
        what.append('x = %s' % v)
    for v in ("a", "b", "c", "d", "e", "z"):
        reqs.append(dict(REQ_BASE, query={"type": "match_all"}, filter={"KeywordEq": {"field": "tag", "value": v}}))
        expect.append(sorted("d%d" % i for i, r in enumerate(rows) if v in vals(r[2])))
        what.append('tag = %s' % v)
    n = 0
    for lay in ([docs], [docs[:6], docs[6:]], [docs[:5], docs[5:]]):
        out, err = drive_search({"schema": None, "schema_add": add, "batches": lay, "requests": reqs})
        if out is None:
            return dict(found=False, note='search driver failed: %s' % err)
        for w, e, o in zip(what, expect, out):
            if 'panic' in o:
                return dict(found=True, cmd='%s search' % BIN, input='batch %s; filter %s' % (_json.dumps(docs), w), observed='PANIC ' + o['panic'][:200], expected='no panic')
            if 'ok' not in o:
                return dict(found=False, note='search driver: %s' % str(o)[:300])
            got = sorted(h['doc_id'] for h in o['ok']['hits'])
            n += 1
            if got != e:
                return dict(found=True, cmd='%s search <<< hex(json)' % BIN,
                            input='documents %s in %d batch(es) (n, x, tag are fast fields: single values first, then a list in d5); filter %s' % (_json.dumps([dict((k, v) for k, v in d.items() if k != 'body') for d in docs]), len(lay), w),
                            observed='hits %s' % got, expected='hits %s (the documents that hold the value)' % e)
    return dict(found=False, note='column upgrade: %d filters over 8 documents in 3 layouts find exactly the documents that hold the value' % n)


# ---------------------------------------------------------------- U14 sort-plan fingerprint
def w_plan_hash(failure, tier):
    """a sort cursor taken under one plan and replayed under a plan that differs in the direction of one key must be rejected"""
    docs = [{"_id": "d%d" % i, "body": "alpha " + "alpha " * (i % 3), "rank": i % 4, "w": (i * 7) % 5} for i in range(8)]
    add = {"numeric_fields": [{"name": "rank", "i64": True, "fast": True, "stored": True}, {"name": "w", "i64": True, "fast": True, "stored": True}]}
    plans = [
        [("_score", "desc"), ("rank", "asc")], [("rank", "asc"), ("_score", "desc")], [("rank", "desc"), ("w", "asc")],
        [("_score", "asc"), ("w", "desc"), ("rank", "asc")], [("w", "asc")], [("rank", "asc"), ("w", "asc"), ("_score", "desc")],
    ]
    def sort(p):
        return [{"field": f, "order": o} for (f, o) in p]
    first = [dict(REQ_BASE, query="alpha", limit=2, sort=sort(p)) for p in plans]
    out, err = drive_search({"schema": None, "schema_add": add, "batches": [docs[:4], docs[4:]], "requests": first})
    if out is None:
        return dict(found=False, note='search driver failed: %s' % err)
    reqs = []
    meta = []
    for p, o in zip(plans, out):
        cur = (o.get('ok') or {}).get('next_cursor')
        if not cur:
            continue
        for i in range(len(p)):
            q = list(p)
            q[i] = (p[i][0], 'asc' if p[i][1] == 'desc' else 'desc')
            if len(q) == 1 and q[0][0] == '_score':
                continue
            reqs.append(dict(REQ_BASE, query="alpha", limit=2, sort=sort(q), cursor=cur))
            meta.append((p, q))
    if not reqs:
        return dict(found=False, note='no cursors produced')
    out2, err = drive_search({"schema": None, "schema_add": add, "batches": [docs[:4], docs[4:]], "requests": reqs})
    if out2 is None:
        return dict(found=False, note='search driver failed: %s' % err)
    for (p, q), o in zip(meta, out2):
        if 'err' not in o:
            return dict(found=True, cmd='%s search <<< hex(json)' % BIN,
                        input='8 documents in 2 segments; page 1 with sort %s, its next_cursor replayed with sort %s' % (p, q),
                        observed=('PANIC ' + o['panic']) if 'panic' in o else 'the cursor was ACCEPTED and a page returned: %s' % [h['doc_id'] for h in o['ok']['hits']],
                        expected='an error: a cursor presented to a different sort order is rejected')
    return dict(found=False, note='sort-plan fingerprint: %d cursors replayed against plans differing in one direction, all rejected' % len(reqs))


# ---------------------------------------------------------------- pagination walks (U7 page cut / skip step, U14 fast-path guard)
def w_pagination(failure, tier):
    """follow next_cursor from the first page until it is absent; the concatenation must equal one request whose limit covers all matches"""
    docs = []
    for i in range(14):
        body = ' '.join(['alpha'] * (1 + i % 3) + ['filler'] * (i % 4))
        # price: doubles handed to the engine as numbers in memory (by bit pattern), among them values whose decimal text
        # does not parse back to the same double without exact float parsing
        import struct
        docs.append({"_id": "d%02d" % i, "body": body, "rank": i % 3,
                     "price": {"$f64_bits": struct.unpack('<Q', struct.pack('<d', 102.12384227413311 + (i * 7) % 5 + (i // 5) * 0.25))[0]}})
    add = {"numeric_fields": [{"name": "rank", "i64": True, "fast": True, "stored": True}, {"name": "price", "i64": False, "fast": True, "stored": True}]}
    plans = [[], [("_score", "desc")], [("_score", "asc")], [("rank", "asc"), ("_score", "desc")], [("rank", "desc")], [("_score", "asc"), ("rank", "asc")],
             [("price", "asc")], [("rank", "asc"), ("price", "desc")]]
    batches = [docs[:5], docs[5:10], docs[10:]]
    def sort(p):
        return [{"field": f, "order": o} for (f, o) in p]
    for p, query in [(p, q) for q in ("alpha", {"type": "match_all"}) for p in plans]:
        full, err = drive_search({"schema": None, "schema_add": add, "batches": batches, "requests": [dict(REQ_BASE, query=query, limit=1000, sort=sort(p))]})
        if full is None or 'ok' not in full[0]:
            continue
        want = [(h['doc_id'], h['score']) for h in full[0]['ok']['hits']]
        for size in (1, 2, 3, 5):
            got = []
            cursor = None
            for _ in range(40):
                req = dict(REQ_BASE, query=query, limit=size, sort=sort(p))
                if cursor:
                    req['cursor'] = cursor
                out, err = drive_search({"schema": None, "schema_add": add, "batches": batches, "requests": [req]})
                if out is None or 'ok' not in out[0]:
                    got.append(('ERROR', str(out)[:200]))
                    break
                got += [(h['doc_id'], h['score']) for h in out[0]['ok']['hits']]
                tot = out[0]['ok'].get('total_hits_estimate', 0)
                if tot > len(want):
                    return dict(found=True, cmd='%s search <<< hex(json) (one request per page)' % BIN,
                                input='14 documents in 3 segments, query %s, sort %s, page size %d, page %d of the cursor walk' % (_json.dumps(query), p or 'default', size, len(got) // size),
                                observed='total_hits_estimate %d' % tot, expected='at most the %d true matches' % len(want))
                cursor = out[0]['ok'].get('next_cursor')
                if not cursor:
                    break
            if got != want:
                return dict(found=True, cmd='%s search <<< hex(json) (one request per page)' % BIN,
                            input='14 documents in 3 segments, query %s, sort %s, page size %d, following next_cursor' % (_json.dumps(query), p or 'default', size),
                            observed='pages concatenate to %s' % [g[0] for g in got],
                            expected='%s (the hits of a single request with limit 1000, same order and scores)' % [w[0] for w in want])
    return dict(found=False, note='pagination: 2 queries x %d sort plans x 4 page sizes over 14 documents in 3 segments: every walk equals the single big request and no total exceeds the true count' % len(plans))


# ---------------------------------------------------------------- U13 explain flag
def w_explain(failure, tier):
    """the same request with explain off and on must return the same hits, order and scores, and every explanation's
    final_score must equal its hit's score"""
    docs = []
    for i in range(12):
        docs.append({"_id": "d%02d" % i, "body": "slow boring text" if i % 4 == 3 else "rust search engine " + "rust " * (i % 3), "rating": float(1 + (i * 5) % 7)})
    add = {"numeric_fields": [{"name": "rating", "i64": False, "fast": True, "stored": True}]}
    queries = [
        "rust",
        {"type": "function_score", "query": {"type": "term", "field": "body", "value": "rust", "boost": 0.0},
         "functions": [{"type": "field_value_factor", "field": "rating", "factor": 1.0}]},
        {"type": "function_score", "query": {"type": "term", "field": "body", "value": "rust"},
         "functions": [{"type": "weight", "weight": 2.0}], "boost_mode": "multiply"},
        {"type": "function_score", "query": {"type": "term", "field": "body", "value": "rust", "boost": 0.0},
         "functions": [{"type": "weight", "weight": 3.0}], "boost_mode": "min"},
        {"type": "bool", "should": [{"type": "term", "field": "body", "value": "rust"}, {"type": "term", "field": "body", "value": "engine"}]},
        {"type": "dis_max", "tie_breaker": 0.25, "queries": [
            {"type": "function_score", "query": {"type": "term", "field": "body", "value": "rust"},
             "functions": [{"type": "field_value_factor", "field": "rating", "factor": 1.0}], "score_mode": "sum", "boost_mode": "multiply"},
            {"type": "term", "field": "body", "value": "search"}]},
        {"type": "bool", "should": [{"type": "dis_max", "queries": [
            {"type": "function_score", "query": {"type": "term", "field": "body", "value": "engine"}, "functions": [{"type": "weight", "weight": 4.0}]},
            {"type": "term", "field": "body", "value": "rust"}]}]},
    ]
    queries.append({"type": "match_all"})
    skip = set((failure or {}).get('skip_cases') or [])
    sorts = [(None, 'score-sort'), ([{"field": "_score", "order": "desc"}, {"field": "rating", "order": "asc"}], 'score-sort'),
             ([{"field": "rating", "order": "desc"}], 'explain-field-only-sort')]
    reqs = []
    for q in queries:
        for ex in ("bm25", "wand"):
            for (srt, tag) in sorts:
                if tag in skip:
                    continue
                for explain in (False, True):
                    r = dict(REQ_BASE, query=q, limit=50, execution=ex, explain=explain)
                    if srt:
                        r['sort'] = srt
                    reqs.append(r)
    out, err = drive_search({"schema": None, "schema_add": add, "batches": [docs[:6], docs[6:]], "requests": reqs})
    if out is None:
        return dict(found=False, note='search driver failed: %s' % err)
    n = 0
    for i in range(0, len(reqs), 2):
        a, b = out[i], out[i + 1]
        if 'ok' not in a or 'ok' not in b:
            if ('ok' in a) != ('ok' in b):
                return dict(found=True, cmd='%s search' % BIN, input=_json.dumps(reqs[i]['query']), observed='explain off: %s / explain on: %s' % (str(a)[:150], str(b)[:150]), expected='same outcome')
            continue
        ha = [(h['doc_id'], h['score']) for h in a['ok']['hits']]
        hb = [(h['doc_id'], h['score']) for h in b['ok']['hits']]
        n += 1
        if ha != hb:
            return dict(found=True, cmd='%s search <<< hex(json)' % BIN,
                        input='12 documents in 2 segments; query %s, sort %s, execution %s, run with explain false and true' % (_json.dumps(reqs[i]['query']), _json.dumps(reqs[i].get('sort')), reqs[i]['execution']),
                        observed='explain off: %s ; explain on: %s' % (ha[:5], hb[:5]), expected='identical hits, order and scores')
        for h in b['ok']['hits']:
            ex = h.get('explanation')
            if ex is None or ex.get('final_score') != h['score']:
                return dict(found=True, cmd='%s search <<< hex(json)' % BIN, input='query %s with explain' % _json.dumps(reqs[i]['query']),
                            observed='hit %s score %s explanation %s' % (h['doc_id'], h['score'], ex), expected='an explanation whose final_score equals the hit score')
    return dict(found=False, note='explain flag: %d request pairs (explain off/on) agree in hits, order and scores; every final_score equals its hit score' % n)


# ---------------------------------------------------------------- U12 / U16 pruned vs exhaustive execution
def w_pruned(failure, tier):
    """wand and bmw must return the same hits, order and scores as the exhaustive bm25 strategy, incl. adjusted scores <= 0"""
    docs = []
    for i in range(24):
        n = 24 if i < 16 else 2
        body = ' '.join(['alpha'] + ['pad%d' % (j % 5) for j in range(n - 1)]) + (' beta' if i % 3 == 0 else '')
        docs.append({"_id": "d%02d" % i, "body": body, "delta": float([1, 0, -1, -2, -3][i % 5]), "pop": 1 + 10 * ((i * 7) % 10)})
    add = {"numeric_fields": [{"name": "delta", "i64": False, "fast": True, "stored": True}, {"name": "pop", "i64": True, "fast": True, "stored": True}]}
    base_q = {"type": "term", "field": "body", "value": "alpha"}
    queries = [
        "alpha", "alpha beta",
        {"type": "function_score", "query": base_q, "functions": [{"type": "field_value_factor", "field": "delta", "factor": 1.0}], "score_mode": "sum", "boost_mode": "multiply"},
        {"type": "script_score", "query": base_q, "script": "_score * delta", "boost": 1.0},
        # scores RAISED far above the BM25 bound of the term
        {"type": "function_score", "query": base_q, "functions": [{"type": "field_value_factor", "field": "pop", "factor": 1.0}], "boost_mode": "multiply"},
        {"type": "script_score", "query": base_q, "script": "_score + pop"},
    ]
    # a min_score that drops about half of the documents (calibrated on the exhaustive strategy): the score hook then
    # rejects candidates in the middle of a pruned run
    mq = {"type": "bool", "should": [base_q, {"type": "term", "field": "body", "value": "beta"}]}
    cal, _e = drive_search({"schema": None, "schema_add": add, "batches": [docs[:10], docs[10:]], "requests": [dict(REQ_BASE, query=mq, limit=100, execution="bm25")]})
    if cal and 'ok' in cal[0] and cal[0]['ok']['hits']:
        sc = sorted(h['score'] for h in cal[0]['ok']['hits'])
        cut = (sc[len(sc) // 2 - 1] + sc[len(sc) // 2]) / 2.0 if len(sc) > 1 else sc[0]
        queries.append({"type": "function_score", "query": mq, "functions": [], "min_score": cut})
    queries += [
        {"type": "bool", "should": [{"type": "term", "field": "body", "value": "alpha", "boost": 2.0}, {"type": "term", "field": "body", "value": "beta"}]},
    ]
    reqs = []
    meta = []
    for q in queries:
        for limit in (1, 3, 5, 9, 30):
            for ex, bs in (("bm25", None), ("wand", None), ("bmw", None), ("bmw", 3)):
                r = dict(REQ_BASE, query=q, limit=limit, execution=ex)
                if bs:
                    r["bmw_block_size"] = bs
                reqs.append(r)
                meta.append((q, limit, ex, bs))
    out, err = drive_search({"schema": None, "schema_add": add, "batches": [docs[:10], docs[10:]], "requests": reqs})
    if out is None:
        return dict(found=False, note='search driver failed: %s' % err)
    n = 0
    for i in range(0, len(reqs), 4):
        base = out[i]
        if 'ok' not in base:
            continue
        want = [(h['doc_id'], round(h['score'], 4)) for h in base['ok']['hits']]
        for j in (1, 2, 3):
            o = out[i + j]
            q, limit, ex, bs = meta[i + j]
            if 'panic' in o:
                return dict(found=True, cmd='%s search' % BIN, input='query %s, %s' % (_json.dumps(q), ex), observed='PANIC ' + o['panic'][:200], expected='hits')
            if 'ok' not in o:
                continue
            got = [(h['doc_id'], round(h['score'], 4)) for h in o['ok']['hits']]
            n += 1
            if got != want:
                return dict(found=True, cmd='%s search <<< hex(json)' % BIN,
                            input='24 documents in 2 segments (16 long, 8 short); query %s, limit %d, execution %s%s vs bm25' % (_json.dumps(q), limit, ex, (' block %d' % bs) if bs else ''),
                            observed='%s returns %s' % (ex, got[:6]), expected='the exhaustive bm25 result %s' % want[:6])
    return dict(found=False, note='pruned vs exhaustive: %d (query, limit, strategy) comparisons agree with bm25' % n)


# ---------------------------------------------------------------- U3 / U15 writer histories
def w_history(failure, tier):
    """generated histories of add / delete / commit / rollback / restart (process death + reopen) over a small id space,
    run through IndexWriter on in-memory storage; the live documents must equal the dictionary model of C04/C02"""
    import random
    rnd = random.Random(int(os.environ.get('VERIF_SEED', '0') or 0) + 17)
    ids = ['a', 'b', 'c', 'd']
    cases = []
    fixed = [
        [["add", "a", 1], ["del", "a"], ["restart"]],
        [["add", "a", 1], ["commit"], ["del", "a"], ["add", "b", 2], ["restart"]],
        [["add", "a", 1], ["commit"], ["del", "a"], ["add", "a", 2], ["del", "a"], ["commit"]],
        [["del", "a"], ["add", "a", 1], ["del", "a"], ["add", "b", 1], ["restart"], ["commit"]],
        [["add", "a", 1], ["add", "a", 2], ["commit"], ["add", "a", 3], ["del", "a"], ["add", "a", 4], ["restart"], ["commit"]],
        [["add", "a", 1], ["add", "b", 1], ["commit"], ["del", "b"], ["commit"], ["del", "a"], ["add", "b", 2], ["rollback"], ["add", "c", 1]],
        [["add", "a", 1], ["commit"], ["add", "b", 1], ["commit"], ["compact"], ["del", "a"], ["add", "b", 2], ["commit"]],
        # tear = the process dies in the middle of an append (half a record is left at the end of the log) and the index is reopened
        [["add", "a", 1], ["tear"], ["add", "b", 2], ["restart"]],
        [["add", "a", 1], ["commit"], ["tear"], ["del", "a"], ["add", "c", 1], ["restart"], ["commit"]],
        [["tear"], ["add", "a", 1], ["restart"], ["add", "b", 1], ["tear"], ["add", "c", 1], ["restart"]],
    ]
    cases += fixed
    for _ in range(40 if tier == 'quick' else 300):
        n = rnd.randint(3, 12)
        ops = []
        for _ in range(n):
            c = rnd.random()
            if c < 0.45:
                ops.append(["add", rnd.choice(ids), rnd.randint(1, 99)])
            elif c < 0.7:
                ops.append(["del", rnd.choice(ids)])
            elif c < 0.85:
                ops.append(["commit"])
            elif c < 0.9:
                ops.append(["rollback"])
            elif c < 0.96:
                ops.append(["restart"])
            else:
                ops.append(["tear"])
        cases.append(ops)

    def model(ops):
        committed = {}
        pending = []
        for op in ops:
            if op[0] == 'add':
                pending.append(op)
            elif op[0] == 'del':
                pending.append(op)
            elif op[0] == 'commit':
                for q in pending:
                    if q[0] == 'add':
                        committed[q[1]] = q[2]
                    else:
                        committed.pop(q[1], None)
                pending = []
            elif op[0] == 'rollback':
                pending = []
            # restart / tear: every queued operation was logged (in-memory storage keeps what was written), so it is recovered;
            # the half record a tear leaves behind is not an operation
        for q in pending:       # the driver ends with a final commit
            if q[0] == 'add':
                committed[q[1]] = q[2]
            else:
                committed.pop(q[1], None)
        return sorted((k, '"v%d"' % v) for k, v in committed.items())

    ins = []
    for ops in cases:
        jops = []
        for op in ops:
            if op[0] == 'add':
                jops.append(["add", {"_id": op[1], "body": "v%d" % op[2]}])
            elif op[0] == 'del':
                jops.append(["del", op[1]])
            elif op[0] == 'tear':
                jops.append(["tear", 6])
            else:
                jops.append([op[0]])
        ins.append(_json.dumps({"ops": jops}).encode())
    res = drive('history', ins)
    for ops, r in zip(cases, res):
        if not r.startswith('OK '):
            return dict(found=True, cmd='%s history <<< hex(json)' % BIN, input='history %s' % ops, observed=r[:300], expected='the index stays usable')
        out = _json.loads(r[3:])
        got = sorted((a, b) for a, b in out['live'])
        want = model(ops)
        if got != want:
            return dict(found=True, cmd='%s history <<< hex(json)' % BIN, input='history %s then a final commit (restart = process death and reopen)' % ops,
                        observed='live documents %s %s' % (got, out.get('log') or ''), expected='%s (one copy of each id whose last committed operation was an add, that version)' % want)
    return dict(found=False, note='writer histories: %d histories of add/delete/commit/rollback/restart/torn append over 4 ids agree with the dictionary model' % len(cases))


# ---------------------------------------------------------------- U65 two live writer handles
def w_two_writers(failure, tier):
    """histories over TWO writer handles of one index that are alive at the same time: the committed contents must be those of
    the calls in the order they were made (C04: 'possibly spread over several writer handles')"""
    skip = set((failure or {}).get('skip_cases') or [])
    if 'second-live-writer-handle' in skip:
        return dict(found=False, note='two writer handles: the cases of this generator are an open known finding (skipped)')
    def doc(i, v):
        return {"_id": i, "body": "v%d" % v}
    cases = [
        ('w1.add(a); w2 = writer(); w1.commit(); w1.delete(a); w1.commit(); w2.add(b); w2.commit()',
         [["add", doc("a", 1)], ["open2"], ["commit"], ["del", "a"], ["commit"], ["add2", doc("b", 1)], ["commit2"]], [("b", '"v1"')]),
        ('w1.add(a); w2 = writer(); w1.rollback(); w2.add(b); w2.commit()',
         [["add", doc("a", 1)], ["open2"], ["rollback"], ["add2", doc("b", 1)], ["commit2"]], [("b", '"v1"')]),
        ('w2 = writer(); w1.add(a); w2.add(b); w1.commit(); drop w2; process dies; reopen; commit',
         [["open2"], ["add", doc("a", 1)], ["add2", doc("b", 1)], ["commit"], ["drop2"], ["restart"]], [("a", '"v1"'), ("b", '"v1"')]),
    ]
    res = drive('history', [_json.dumps({"ops": c[1]}).encode() for c in cases])
    for (what, ops, want), r in zip(cases, res):
        if not r.startswith('OK '):
            return dict(found=True, cmd='%s history <<< hex(json)' % BIN, case='second-live-writer-handle', input=what, observed=r[:300], expected='the index stays usable')
        got = sorted((a, b) for a, b in _json.loads(r[3:])['live'])
        if got != sorted(want):
            return dict(found=True, cmd='%s history <<< hex(json)' % BIN, case='second-live-writer-handle', input=what,
                        observed='live documents %s' % got, expected='%s' % sorted(want))
    return dict(found=False, note='two writer handles: %d histories agree with the order of the calls' % len(cases))


# ---------------------------------------------------------------- U66 a queued document can be committed
def w_oversize(failure, tier):
    """a document whose stored form is larger than the document store's cap (32 MiB): either it is refused when it is queued,
    or the commit succeeds - a queued document must never make commits fail"""
    skip = set((failure or {}).get('skip_cases') or [])
    if 'oversize-document-blocks-commits' in skip:
        return dict(found=False, note='oversize document: the case of this generator is an open known finding (skipped)')
    big = "x" * (32 * 1024 * 1024 + 16)
    ops = [["add", {"_id": "big", "body": big}], ["commit"], ["add", {"_id": "small", "body": "alpha"}], ["commit"]]
    res = drive('history', [_json.dumps({"ops": ops}).encode()])
    r = res[0]
    if not r.startswith('OK '):
        return dict(found=True, cmd='%s history <<< hex(json)' % BIN, case='oversize-document-blocks-commits', input='add a document with a body of 32 MiB + 16 bytes, commit, add a small document, commit', observed=r[:300], expected='the index stays usable')
    out = _json.loads(r[3:])
    log = out.get('log') or []
    if any('commit failed' in l for l in log) and not any(l.startswith('add failed') for l in log):
        return dict(found=True, cmd='%s history <<< hex(json)' % BIN, case='oversize-document-blocks-commits',
                    input='add a document with a body of 32 MiB + 16 bytes (accepted), commit, add a small document, commit',
                    observed='log %s; live documents %s' % ([l[:120] for l in log], [a for a, _ in out['live']]),
                    expected='the big document refused when it is queued, or every commit succeeds')
    return dict(found=False, note='oversize document: refused at add time or committed; no commit fails because of it')


# ---------------------------------------------------------------- U68 request-sized loops and lists
def w_hostile_aggs(failure, tier):
    """aggregation requests whose bounds, interval or `predict` are extreme: each search must come back - with a result or an
    error - within a few seconds, and must not panic"""
    add = {"numeric_fields": [{"name": "n", "i64": True, "fast": True, "stored": True}]}
    docs = [{"_id": "d%d" % i, "body": "alpha", "n": i} for i in range(4)] + [{"_id": "neg", "body": "alpha", "n": -5}]
    cases = [
        ('date_histogram offset 99999999999999999999w (saturates) over a negative timestamp', {"d": {"type": "date_histogram", "field": "n", "fixed_interval": "1s", "offset": "99999999999999999999w"}}),
        ('date_histogram calendar day, offset 99999999999999999999w', {"d": {"type": "date_histogram", "field": "n", "calendar_interval": "day", "offset": "99999999999999999999w"}}),
        ('moving_avg predict 2^64-1', {"h": {"type": "histogram", "field": "n", "interval": 1.0,
                                            "aggs": {"m": {"type": "moving_avg", "buckets_path": "_count", "window": 2, "predict": 18446744073709551615}}}}),
        ('date_histogram fixed_interval 0s with extended_bounds', {"d": {"type": "date_histogram", "field": "n", "fixed_interval": "0s", "extended_bounds": {"min": "0", "max": "10"}}}),
        ('histogram extended_bounds 1e19', {"h": {"type": "histogram", "field": "n", "interval": 1.0, "extended_bounds": {"min": 1e19, "max": 1e19}}}),
        ('histogram extended_bounds 0 .. 1e15', {"h": {"type": "histogram", "field": "n", "interval": 1.0, "extended_bounds": {"min": 0.0, "max": 1e15}}}),
    ]
    n = 0
    for what, aggs in cases:
        req = dict(REQ_BASE, query={"type": "match_all"}, limit=1, aggs=aggs)
        data = _json.dumps({"schema": None, "schema_add": add, "batches": [docs], "requests": [req]}).encode().hex() + '\n'
        try:
            p = subprocess.run(['bash', '-c', 'ulimit -v 4000000; exec "$0" search', BIN], input=data, stdout=subprocess.PIPE, stderr=subprocess.PIPE, text=True, timeout=20)
            line = (p.stdout.split('\n') or [''])[0]
        except subprocess.TimeoutExpired:
            return dict(found=True, cmd='%s search <<< hex(json)' % BIN, input='4 documents with an i64 field n; aggregation %s' % what,
                        observed='no answer within 20 s (the search does not return)', expected='a result or an error')
        n += 1
        if line.startswith('PANIC') or '"panic"' in line or not line:
            return dict(found=True, cmd='%s search <<< hex(json)' % BIN, input='4 documents with an i64 field n; aggregation %s' % what,
                        observed=(line[:200] or 'the process died (exit %s) %s' % (p.returncode, p.stderr[-160:])), expected='a result or an error')
    return dict(found=False, note='hostile aggregations: %d requests with extreme bounds / intervals / predict come back with a result or an error' % n)


# ---------------------------------------------------------------- U21 top_hits and the request sort
def w_top_hits_sort(failure, tier):
    """a top_hits aggregation ranked by _score must not depend on what the request sorts its HITS by"""
    add = {"numeric_fields": [{"name": "year", "i64": True, "fast": True, "stored": True}], "keyword_fields": [{"name": "tag", "stored": True, "indexed": True, "fast": True}]}
    docs = [{"_id": "d0", "body": "rust filler filler filler filler", "year": 1, "tag": "a"},
            {"_id": "d1", "body": "rust rust filler", "year": 2, "tag": "a"},
            {"_id": "d2", "body": "rust rust rust", "year": 3, "tag": "b"},
            {"_id": "d3", "body": "rust filler", "year": 4, "tag": "b"}]
    aggs = {"best": {"type": "top_hits", "size": 2}, "by_tag": {"type": "terms", "field": "tag", "size": 5, "aggs": {"top": {"type": "top_hits", "size": 1}}}}
    reqs = [dict(REQ_BASE, query="rust", limit=10, aggs=aggs), dict(REQ_BASE, query="rust", limit=10, aggs=aggs, sort=[{"field": "year", "order": "asc"}])]
    n = 0
    for batches in ([docs], [docs[:2], docs[2:]]):
        out, err = drive_search({"schema": None, "schema_add": add, "batches": batches, "requests": reqs})
        if out is None or any('ok' not in o for o in out):
            return dict(found=False, note='search driver failed: %s' % (err or str(out)[:300]))
        def tops(o):
            a = o['ok']['aggregations']
            return ([(h['doc_id'], round(h.get('score') or 0.0, 4)) for h in a['best']['hits']],
                    [(b['key'], [(h['doc_id'], round(h.get('score') or 0.0, 4)) for h in b['aggregations']['top']['hits']]) for b in a['by_tag']['buckets']])
        a, b = tops(out[0]), tops(out[1])
        n += 1
        if a != b:
            return dict(found=True, cmd='%s search <<< hex(json)' % BIN,
                        input='4 documents matching "rust" with different term frequencies in %d segment(s); aggregations top_hits(size 2) and terms(tag){top_hits(size 1)}; the request once with the default sort and once with sort year asc' % len(batches),
                        observed='sort year asc: %s' % (b,), expected='%s (what the default sort reports: top_hits ranks by _score)' % (a,))
    return dict(found=False, note='top_hits: %d layouts, the aggregation is the same whatever the request sorts its hits by' % n)


# ---------------------------------------------------------------- U67 cursors and delete-only commits
def w_stale_cursor(failure, tier):
    """a cursor taken before a commit that only deletes documents, replayed on a reader opened after it: it must be rejected,
    like a cursor replayed after a commit that adds documents - and total_hits_estimate must not exceed the matches"""
    skip = set((failure or {}).get('skip_cases') or [])
    if 'delete-only-commit-keeps-cursor' in skip:
        return dict(found=False, note='stale cursors: the case of this generator is an open known finding (skipped)')
    add = {"numeric_fields": [{"name": "rank", "i64": True, "fast": True, "stored": True}]}
    docs = [{"_id": x, "body": "alpha", "rank": i} for i, x in enumerate("abcdef")]
    req = dict(REQ_BASE, query={"type": "match_all"}, limit=2, sort=[{"field": "rank", "order": "asc"}])
    out, err = drive_search({"schema": None, "schema_add": add, "batches": [docs], "requests": [req], "then_deletes": ["a", "d"],
                             "then_requests": [dict(req, cursor_from=0), dict(req, limit=100)]})
    if out is None or len(out) < 3 or 'ok' not in out[0] or 'ok' not in out[2]:
        return dict(found=False, note='search driver failed: %s' % (err or str(out)[:300]))
    live = len(out[2]['ok']['hits'])
    if 'ok' in out[1]:
        return dict(found=True, cmd='%s search <<< hex(json)' % BIN, case='delete-only-commit-keeps-cursor',
                    input='documents a..f with rank 0..5 in one segment; match_all sorted by rank, limit 2 -> [a, b] and a cursor; then delete a and d, commit, open a new reader and replay the cursor',
                    observed='the cursor is accepted: hits %s, total_hits_estimate %s (%d documents match)' % ([h['doc_id'] for h in out[1]['ok']['hits']], out[1]['ok'].get('total_hits_estimate'), live),
                    expected='a stale-cursor error (the committed state changed), as after a commit that adds documents')
    return dict(found=False, note='stale cursors: a cursor replayed after a delete-only commit is rejected')


# ---------------------------------------------------------------- U36 optional compound clauses
def w_unmatched_clause(failure, tier):
    """an optional compound clause that matches NO document must not change any score: bool{should: [bool{must: [alpha, beta]},
    gamma]} ranks and scores exactly like `gamma` when no document holds both alpha and beta"""
    skip = set((failure or {}).get('skip_cases') or [])
    if 'unmatched-clause-adds-score' in skip:
        return dict(found=False, note='optional compound clauses: the case of this generator is an open known finding (skipped)')
    docs = [{"_id": "d0", "body": "gamma"}, {"_id": "d1", "body": "gamma alpha filler filler"}, {"_id": "d2", "body": "beta filler"}, {"_id": "d3", "body": "filler filler"}]
    t = lambda v: {"type": "term", "field": "body", "value": v}
    q1 = {"type": "bool", "should": [{"type": "bool", "must": [t("alpha"), t("beta")]}, t("gamma")]}
    q2 = t("gamma")
    n = 0
    for ex in ("bm25", "wand"):
        out, err = drive_search({"schema": None, "batches": [docs], "requests": [dict(REQ_BASE, query=q1, limit=10, execution=ex), dict(REQ_BASE, query=q2, limit=10, execution=ex)]})
        if out is None or any('ok' not in o for o in out):
            return dict(found=False, note='search driver failed: %s' % (err or str(out)[:300]))
        a = [(h['doc_id'], round(h['score'], 4)) for h in out[0]['ok']['hits']]
        b = [(h['doc_id'], round(h['score'], 4)) for h in out[1]['ok']['hits']]
        n += 1
        if a != b:
            return dict(found=True, cmd='%s search <<< hex(json)' % BIN, case='unmatched-clause-adds-score',
                        input='d0 "gamma", d1 "gamma alpha filler filler", d2 "beta filler", d3 "filler filler"; query %s, execution %s' % (_json.dumps(q1), ex),
                        observed='hits %s' % a, expected='%s (the hits and scores of the query `gamma`: the inner bool matches no document)' % b)
    return dict(found=False, note='optional compound clauses: %d executions, an unmatched inner clause adds nothing' % n)


# ---------------------------------------------------------------- U70 dotted leaves under a nested clause
def w_dotted_leaf(failure, tier):
    """a leaf clause on a dotted field (`reply.tag`) inside Nested{comment, ..} must agree with the explicit form
    Nested{comment, .. Nested{reply, tag ..}}: the reply has to belong to the comment that is bound"""
    skip = set((failure or {}).get('skip_cases') or [])
    if 'dotted-leaf-wrong-object' in skip:
        return dict(found=False, note='dotted leaves: the case of this generator is an open known finding (skipped)')
    add = {"nested_fields": [{"name": "comment", "fields": [
        {"type": "keyword", "name": "author", "fast": True, "stored": True, "indexed": True},
        {"type": "numeric", "name": "stars", "i64": True, "fast": True, "stored": True},
        {"type": "object", "name": "reply", "nullable": True, "fields": [
            {"type": "keyword", "name": "tag", "fast": True, "stored": True, "indexed": True},
            {"type": "numeric", "name": "n", "i64": True, "fast": True, "stored": True}]}]}]}
    docs = [{"_id": "d1", "body": "x", "comment": [{"author": "alice", "stars": 1, "reply": [{"tag": "x", "n": 1}, {"tag": "y", "n": 2}]},
                                                  {"author": "bob", "stars": 2, "reply": []}]}]
    def nested(author, leaf, explicit):
        inner = {"Nested": {"path": "reply", "filter": leaf(False)}} if explicit else leaf(True)
        return {"Nested": {"path": "comment", "filter": {"And": [{"KeywordEq": {"field": "author", "value": author}}, inner]}}}
    leaves = [('tag = y', lambda dotted: {"KeywordEq": {"field": "reply.tag" if dotted else "tag", "value": "y"}}),
              ('n in [2, 2]', lambda dotted: {"I64Range": {"field": "reply.n" if dotted else "n", "min": 2, "max": 2}})]
    reqs, meta = [], []
    for lname, leaf in leaves:
        for author in ("alice", "bob"):
            for explicit in (True, False):
                reqs.append(dict(REQ_BASE, query={"type": "match_all"}, filter=nested(author, leaf, explicit)))
                meta.append((lname, author, explicit))
    out, err = drive_search({"schema": None, "schema_add": add, "batches": [docs], "requests": reqs})
    if out is None:
        return dict(found=False, note='search driver failed: %s' % err)
    if any('ok' not in o for o in out):
        return dict(found=False, note='search driver: %s' % str([o for o in out if 'ok' not in o][:1])[:300])
    n = 0
    for i in range(0, len(reqs), 2):
        (lname, author, _), a, b = meta[i], out[i], out[i + 1]
        ha, hb = [h['doc_id'] for h in a['ok']['hits']], [h['doc_id'] for h in b['ok']['hits']]
        n += 1
        if ha != hb:
            return dict(found=True, cmd='%s search <<< hex(json)' % BIN, case='dotted-leaf-wrong-object',
                        input='d1 comment: [{author alice, reply [{tag x, n 1}, {tag y, n 2}]}, {author bob, reply []}]; filter Nested{comment, And[author = %s, reply.%s]} (dotted leaf)' % (author, lname),
                        observed='hits %s' % hb, expected='%s (what the explicit form Nested{comment, And[author = %s, Nested{reply, %s}]} returns)' % (ha, author, lname))
    return dict(found=False, note='dotted leaves: %d filters agree with their explicit nested form' % n)


# ---------------------------------------------------------------- U40 null child objects
def w_child_null(failure, tier):
    """an explicit null for a NULLABLE child object of a nested object, under a parent that is not nullable (and the other
    three combinations): whatever add_document accepts must commit"""
    n = 0
    for pn in (False, True):
        for cn in (False, True):
            add = {"nested_fields": [{"name": "comment", "nullable": pn, "fields": [
                {"type": "keyword", "name": "author", "fast": True, "stored": True, "indexed": True},
                {"type": "object", "name": "reply", "nullable": cn, "fields": [{"type": "keyword", "name": "tag", "fast": True, "stored": True, "indexed": True}]}]}]}
            ops = [["add", {"_id": "ok", "body": "x", "comment": [{"author": "a", "reply": [{"tag": "t"}]}]}],
                   ["add", {"_id": "nul", "body": "x", "comment": [{"author": "b", "reply": None}]}], ["commit"]]
            r = drive('history', [_json.dumps({"schema_add": add, "ops": ops}).encode()])[0]
            if not r.startswith('OK '):
                return dict(found=True, cmd='%s history <<< hex(json)' % BIN, input='nested comment (nullable %s) with child object reply (nullable %s); document with reply: null' % (pn, cn), observed=r[:300], expected='the index stays usable')
            out = _json.loads(r[3:])
            log = out.get('log') or []
            n += 1
            if any('commit failed' in l for l in log):
                return dict(found=True, cmd='%s history <<< hex(json)' % BIN,
                            input='nested field comment (nullable: %s) with a child object reply (nullable: %s); add {comment: [{author: b, reply: null}]}, commit' % (pn, cn),
                            observed='log %s' % [l[:160] for l in log], expected='the document refused when it is queued, or the commit succeeds')
    return dict(found=False, note='null child objects: %d nullable combinations, every accepted document commits' % n)


# ---------------------------------------------------------------- U19 scripts
def w_script(failure, tier):
    """script_score with arbitrary small scripts: Ok or Err, never a panic"""
    docs = [{"_id": "d%d" % i, "body": "alpha beta", "rating": float(i)} for i in range(3)]
    add = {"numeric_fields": [{"name": "rating", "i64": False, "fast": True, "stored": True}]}
    scripts = ["()", "( )", "(())", "()()", "1 +", "_score *", "-", "1 2", ")(", "_score", "-(-_score)", "1/0", "rating * 2", "((1)", "1 + + 2", "--1",
               "_score * (rating + 1)", "(", ")", "1e308 * 1e308", "0/0", "rating rating", "- -", "+", "* 2"]
    reqs = [dict(REQ_BASE, query={"type": "script_score", "query": {"type": "term", "field": "body", "value": "alpha"}, "script": sc}) for sc in scripts]
    out, err = drive_search({"schema": None, "schema_add": add, "batches": [docs], "requests": reqs})
    if out is None:
        return dict(found=False, note='search driver failed: %s' % err)
    for sc, o in zip(scripts, out):
        if 'panic' in o:
            return dict(found=True, cmd='%s search <<< hex(json)' % BIN, input='script_score query with script %r over 3 documents' % sc,
                        observed='PANIC ' + o['panic'][:200], expected='Ok or Err: a search never panics on any script')
    return dict(found=False, note='scripts: %d small scripts through script_score, none panics' % len(scripts))


# ---------------------------------------------------------------- U20 scan / accept: who is counted and returned
def w_scan(failure, tier):
    """queries without terms (scan_segment) and with terms (accept closure) over 3 segments with deletions and a root
    filter: hits, total and a terms aggregation must equal a brute-force reference over the live documents"""
    docs = []
    for i in range(18):
        docs.append({"_id": "d%02d" % i, "body": ("alpha " if i % 2 == 0 else "beta ") + "filler", "rank": i % 5, "tag": "t%d" % (i % 3)})
    add = {"numeric_fields": [{"name": "rank", "i64": True, "fast": True, "stored": True}],
           "keyword_fields": [{"name": "tag", "stored": True, "indexed": True, "fast": True}]}
    batches = [docs[:6], docs[6:12], docs[12:]]
    deletes = [[], ["d01", "d04"], ["d07", "d13"]]
    gone = {"d01", "d04", "d07"}     # d13 is deleted in the same batch that adds it: the add wins or the delete wins -- excluded below
    live = [d for d in docs if d["_id"] not in gone and d["_id"] != "d13"]
    cases = []
    for (qname, q, qpred) in (("match_all", {"type": "match_all"}, lambda d: True), ("term alpha", {"type": "term", "field": "body", "value": "alpha"}, lambda d: d["body"].startswith("alpha"))):
        for (fname, flt, fpred) in (("no filter", None, lambda d: True), ("rank in 1..3", {"I64Range": {"field": "rank", "min": 1, "max": 3}}, lambda d: 1 <= d["rank"] <= 3),
                                    ("tag = t1", {"KeywordEq": {"field": "tag", "value": "t1"}}, lambda d: d["tag"] == "t1")):
            for srt in (None, [{"field": "rank", "order": "asc"}]):
                for explain in (False, True):
                    if explain and srt:
                        continue
                    req = dict(REQ_BASE, query=q, limit=100, execution="wand", explain=explain,
                               aggs={"tags": {"type": "terms", "field": "tag", "size": 10}})
                    if flt:
                        req["filter"] = flt
                    if srt:
                        req["sort"] = srt
                    cases.append((qname, fname, srt, explain, req, [d for d in live if qpred(d) and fpred(d)]))
    out, err = drive_search({"schema": None, "schema_add": add, "batches": batches, "deletes": deletes, "requests": [c[4] for c in cases]})
    if out is None:
        return dict(found=False, note='search driver failed: %s' % err)
    n = 0
    for (qname, fname, srt, explain, req, want), o in zip(cases, out):
        desc = '18 documents in 3 segments (d01 d04 d07 deleted), query %s, filter %s, sort %s, explain %s' % (qname, fname, _json.dumps(srt), explain)
        if 'ok' not in o:
            return dict(found=True, cmd='%s search <<< hex(json)' % BIN, input=desc, observed=str(o)[:200], expected='a response')
        ids = sorted(h['doc_id'] for h in o['ok']['hits'] if h['doc_id'] != 'd13')
        wid = sorted(d['_id'] for d in want)
        if ids != wid:
            return dict(found=True, cmd='%s search <<< hex(json)' % BIN, input=desc, observed='hits %s' % ids, expected='exactly the live documents that satisfy query and filter: %s' % wid)
        tot = o['ok'].get('total_hits_estimate', 0)
        extra = sum(1 for h in o['ok']['hits'] if h['doc_id'] == 'd13')
        if tot != len(wid) + extra:
            return dict(found=True, cmd='%s search <<< hex(json)' % BIN, input=desc, observed='total_hits_estimate %d' % tot, expected='%d' % (len(wid) + extra))
        aggs = (o['ok'].get('aggregations') or {}).get('tags')
        if aggs and 'buckets' in aggs and not extra:
            got = {b['key']: b['doc_count'] for b in aggs['buckets']}
            ref = {}
            for d in want:
                ref[d['tag']] = ref.get(d['tag'], 0) + 1
            if got != ref:
                return dict(found=True, cmd='%s search <<< hex(json)' % BIN, input=desc + ', terms aggregation on tag', observed='buckets %s' % got, expected='%s' % ref)
        n += 1
    return dict(found=False, note='scan/accept: %d requests (match_all and term queries x root filters x sorts x explain) return exactly the live matching documents, count them once and aggregate them once' % n)


# ---------------------------------------------------------------- U13 / U17 rescoring
def _f32(x):
    import struct
    return struct.unpack('<f', struct.pack('<f', x))[0]


def w_rescore(failure, tier):
    """C19 as stated: the first window_size hits get combine(original, rescore score), hits the rescore query rejects by
    min_score are dropped, window hits the rescore query does not match keep their score, the window is re-sorted by
    the new score, the tail keeps scores and order.  The rescore query's own scores / rejections / matches are read
    from a stand-alone run of that query (not the rescore path)."""
    docs = []
    ratings = [5, 1, 7, 2, 9, 4, 2.5, 8, 1.5, 6, 3.5, 10]
    for i in range(12):
        docs.append({"_id": "d%02d" % i, "body": "rust " * (1 + i % 4) + "filler " * (i % 5), "rating": float(ratings[i])})
    add = {"numeric_fields": [{"name": "rating", "i64": False, "fast": True, "stored": True}]}
    batches = [docs[:6], docs[6:]]
    rqs = [('function_score(match_all, rating, replace, min_score 3)',
            {"type": "function_score", "query": {"type": "match_all"}, "functions": [{"type": "field_value_factor", "field": "rating", "factor": 1.0}],
             "boost_mode": "replace", "min_score": 3.0}, 'drop'),
           ('term body:filler (matches only some window hits)', {"type": "term", "field": "body", "value": "filler"}, 'keep')]
    base = dict(REQ_BASE, query="rust", limit=100)
    combos = [(w, m) for w in (1, 3, 5, 8, 12, 50) for m in ("total", "multiply", "max", "min")]
    comb = {"total": lambda a, b: _f32(a + b), "multiply": lambda a, b: _f32(a * b), "max": max, "min": min}
    n = 0
    for (rname, rq, absent) in rqs:
        reqs = [base, dict(REQ_BASE, query=rq, limit=100)]
        for (w, m) in combos:
            reqs.append(dict(base, rescore={"window_size": w, "query": rq, "score_mode": m}))
        out, err = drive_search({"schema": None, "schema_add": add, "batches": batches, "requests": reqs})
        if out is None or 'ok' not in out[0] or 'ok' not in out[1]:
            return dict(found=False, note='search driver failed: %s' % (err or str(out)[:200]))
        orig = [(h['doc_id'], h['score']) for h in out[0]['ok']['hits']]
        rs = {h['doc_id']: h['score'] for h in out[1]['ok']['hits']}
        for (w, m), o in zip(combos, out[2:]):
            desc = '12 documents in 2 segments, query "rust", rescore window_size %d score_mode %s, rescore query %s' % (w, m, rname)
            if 'ok' not in o:
                return dict(found=True, cmd='%s search <<< hex(json)' % BIN, input=desc, observed=str(o)[:200], expected='a response')
            got = [(h['doc_id'], h['score']) for h in o['ok']['hits']]
            win = []
            for (d, sc) in orig[:w]:
                if d in rs:
                    win.append((d, comb[m](sc, rs[d])))
                elif absent == 'keep':
                    win.append((d, sc))
            if len(set(sc for (_, sc) in win)) != len(win):
                continue    # ties inside the window: order depends on the tie-break, not compared
            win.sort(key=lambda x: -x[1])
            want = win + orig[w:]
            if [g[0] for g in got] != [x[0] for x in want] or any(abs(g[1] - x[1]) > 1e-5 * max(1.0, abs(x[1])) for g, x in zip(got, want)):
                return dict(found=True, cmd='%s search <<< hex(json)' % BIN, input=desc,
                            observed='hits %s' % [(d, round(sc, 4)) for (d, sc) in got],
                            expected='%s (window combined and re-sorted, min_score rejections dropped, non-matching window hits and the tail untouched)' % [(d, round(sc, 4)) for (d, sc) in want])
            n += 1
    # the page size must not change what is rescored: a request with a small limit returns the first `limit` hits of the same
    # request with a large one (the window is counted in the initial ranking of ALL segments, rejected hits are replaced from
    # behind).  The initial score is the `rank` field, so the initial ranking is known.
    radd = {"numeric_fields": [{"name": "rank", "i64": False, "fast": True, "stored": True}]}
    def ranked(q):
        return {"type": "function_score", "query": q, "functions": [{"type": "field_value_factor", "field": "rank", "factor": 1.0}], "boost_mode": "replace"}
    seg_a = [{"_id": "a%d" % k, "body": "alpha", "rank": 0.9 - 0.1 * k} for k in range(4)]
    seg_b = [{"_id": "b%d" % k, "body": "alpha magic" if k == 1 else "alpha", "rank": 0.5 - 0.1 * k} for k in range(3)]
    one = [{"_id": "d%d" % k, "body": "alpha magic" if k == 3 else "alpha", "rank": 0.9 - 0.1 * k} for k in range(5)]
    magic = {"type": "term", "field": "body", "value": "magic"}
    reject = {"type": "function_score", "query": {"type": "match_all"}, "functions": [{"type": "field_value_factor", "field": "rank", "factor": 1.0}],
              "boost_mode": "replace", "min_score": 5.0}
    for (what, batches2, w, rq) in (("d0..d4 ranked 0.9..0.5 in one segment, only d3 contains magic", [one], 4, magic),
                                   ("a0..a3 ranked 0.9..0.6 in one segment, b0..b2 ranked 0.5..0.3 in another, only b1 contains magic", [seg_a, seg_b], 5, magic),
                                   ("d0..d4 ranked 0.9..0.5 in one segment, rescore query rejects every hit (min_score)", [one], 2, reject)):
        big = dict(REQ_BASE, query=ranked({"type": "term", "field": "body", "value": "alpha"}), limit=10,
                   rescore={"window_size": w, "query": rq, "score_mode": "total"})
        small = dict(big, limit=2)
        out, err = drive_search({"schema": None, "schema_add": radd, "batches": batches2, "requests": [big, small]})
        if out is None or any('ok' not in o for o in out):
            return dict(found=False, note='search driver failed: %s' % (err or str(out)[:200]))
        ref = [(h['doc_id'], round(h['score'], 4)) for h in out[0]['ok']['hits']]
        got = [(h['doc_id'], round(h['score'], 4)) for h in out[1]['ok']['hits']]
        n += 1
        if got != ref[:2] or (len(ref) > 2 and not out[1]['ok'].get('next_cursor')):
            return dict(found=True, cmd='%s search <<< hex(json)' % BIN,
                        input='%s; initial score = rank; limit 2, rescore window_size %d score_mode total' % (what, w),
                        observed='hits %s, next_cursor %s' % (got, 'present' if out[1]['ok'].get('next_cursor') else 'absent'),
                        expected='%s and a cursor: the first 2 hits of the same request with limit 10' % ref[:2])
    # a window hit rejected by the rescore query: the hits behind the window were never rescored and keep their order
    ddocs = [{"_id": x, "body": "rust" + " filler" * i, "lang": x.lower()} for i, x in enumerate("ABCDE")]
    dadd = {"keyword_fields": [{"name": "lang", "stored": True, "indexed": True, "fast": True}]}
    for window in (2, 3):
        rq = {"window_size": window, "score_mode": "multiply",
              "query": {"type": "function_score", "query": {"type": "match_all"},
                        "functions": [{"type": "weight", "weight": 0.0, "filter": {"KeywordEq": {"field": "lang", "value": "a"}}},
                                      {"type": "weight", "weight": 0.01, "filter": {"KeywordEq": {"field": "lang", "value": "b"}}},
                                      {"type": "weight", "weight": 0.02, "filter": {"KeywordEq": {"field": "lang", "value": "c"}}}],
                        "score_mode": "sum", "boost_mode": "replace", "min_score": 0.005}}
        out, err = drive_search({"schema": None, "schema_add": dadd, "batches": [ddocs], "requests": [dict(REQ_BASE, query="rust", limit=10, execution="bm25", rescore=rq)]})
        if out is None or 'ok' not in out[0]:
            return dict(found=False, note='search driver failed: %s' % (err or str(out)[:200]))
        got = [h['doc_id'] for h in out[0]['ok']['hits']]
        n += 1
        # A is rejected; the rescored survivors (B, or C then B ... by new score) come first, then the untouched tail in its old order
        want = (["B"] if window == 2 else ["C", "B"]) + (["C", "D", "E"] if window == 2 else ["D", "E"])
        if got != want:
            return dict(found=True, cmd='%s search <<< hex(json)' % BIN,
                        input='documents A..E ranked A,B,C,D,E by "rust"; rescore window %d with a function_score that rejects A (min_score) and scales B by 0.01, C by 0.02' % window,
                        observed='hits %s' % got, expected='%s: the surviving rescored hits re-ordered, the hits behind the window in their old order' % want)
    return dict(found=False, note='rescore: %d (rescore query, window, mode) combinations agree with the documented semantics' % n)


# ---------------------------------------------------------------- U23 repeated query terms
def w_repeat(failure, tier):
    """a term that occurs twice in a query: the search must answer (no panic), and the three strategies must agree"""
    docs = [{"_id": "d%d" % i, "body": ("rust " * (1 + i % 3)) + ("search " if i % 2 else "") + "filler"} for i in range(8)]
    qs = ["rust rust", "rust search rust",
          {"type": "bool", "should": [{"type": "term", "field": "body", "value": "rust"}, {"type": "term", "field": "body", "value": "rust"}]},
          {"type": "dis_max", "tie_breaker": 0.5, "queries": [{"type": "term", "field": "body", "value": "rust"}, {"type": "term", "field": "body", "value": "rust", "boost": 2.0}]}]
    reqs = [dict(REQ_BASE, query=q, limit=10, execution=ex) for q in qs for ex in ("bm25", "wand", "bmw")]
    rescore = dict(REQ_BASE, query="rust", limit=10, rescore={"window_size": 5, "query": {"type": "bool", "should": [
        {"type": "term", "field": "body", "value": "search"}, {"type": "term", "field": "body", "value": "search"}]}})
    reqs.append(rescore)
    out, err = drive_search({"schema": None, "batches": [docs[:4], docs[4:]], "requests": reqs})
    if out is None:
        # the driver reports a panic of the whole batch as a failed run: find the request that does it
        for r in reqs:
            o1, e1 = drive_search({"schema": None, "batches": [docs[:4], docs[4:]], "requests": [r]})
            if o1 is None or 'panic' in str(o1[0]):
                return dict(found=True, cmd='%s search <<< hex(json)' % BIN, input='8 documents in 2 segments, query %s, execution %s' % (_json.dumps(r['query']), r['execution']),
                            observed='PANIC / failed run: %s' % (e1 or str(o1))[:300], expected='a response: a repeated query term must not panic (debug builds run the debug_assert)')
        return dict(found=False, note='search driver failed: %s' % err)
    for r, o in zip(reqs, out):
        if 'panic' in o:
            return dict(found=True, cmd='%s search <<< hex(json)' % BIN, input='8 documents in 2 segments, query %s, execution %s' % (_json.dumps(r['query']), r['execution']),
                        observed='PANIC ' + str(o['panic'])[:300], expected='a response: a repeated query term must not panic')
    for i in range(0, len(qs) * 3, 3):
        hs = [[(h['doc_id'], round(h['score'], 4)) for h in o['ok']['hits']] if 'ok' in o else str(o)[:100] for o in out[i:i + 3]]
        if hs[0] != hs[1] or hs[0] != hs[2]:
            return dict(found=True, cmd='%s search <<< hex(json)' % BIN, input='8 documents in 2 segments, query %s under bm25 / wand / bmw' % _json.dumps(reqs[i]['query']),
                        observed='bm25 %s ; wand %s ; bmw %s' % (hs[0][:4], hs[1][:4], hs[2][:4]), expected='the same hits and scores')
    return dict(found=False, note='repeated terms: %d requests answered without panic, strategies agree' % len(reqs))


# ---------------------------------------------------------------- U8 verify_checksums
def w_corrupt(failure, tier):
    """flip one byte of one segment file at a time: opening a reader must fail with an error (never succeed, never panic)"""
    docs = [{"_id": "d%d" % i, "body": "alpha beta gamma %d" % i} for i in range(6)]
    flips = []
    for kind in ("terms", "postings", "docstore", "fast", "meta"):
        for off in ([0, 1, 2, 3, 5, 8, 13, 21, 34, 55, 89, 144, 233, 377, 610, 987, 1597] if tier == 'quick' else list(range(0, 2000, 7))):
            for x in (0x01, 0x80, 0xFF):
                flips.append([kind, off, x])
    r = drive('corrupt', [_json.dumps({"docs": docs, "flips": flips}).encode()])[0]
    if not r.startswith('OK '):
        return dict(found=False, note='corrupt driver failed: %s' % r[:300])
    n = 0
    for o in _json.loads(r[3:]):
        if o['open'].startswith('skipped'):
            continue
        n += 1
        if not o['open'].startswith('err'):
            return dict(found=True, cmd='%s corrupt <<< hex(json)' % BIN,
                        input='one segment of 6 documents, byte %d of the %s file (%d bytes) altered, then IndexReader::open' % (o['off'], o['file'], o['len']),
                        observed='open: %s' % o['open'][:200], expected='an error naming the failed checksum (a single altered byte always changes a CRC-32)')
    return dict(found=False, note='corruption: %d single-byte alterations of the five segment files are all rejected at open with an error' % n)


# ---------------------------------------------------------------- U28 aggregations across a cursor walk
def w_agg_pages(failure, tier):
    """C13: the aggregations of every page of a cursor walk equal those of the first page"""
    skip = set((failure or {}).get('skip_cases') or [])
    if 'aggs-after-cursor' in skip:
        return dict(found=False, note='aggregations across pages: the only case of this generator is an open known finding (skipped)')
    docs = [{"_id": "d%02d" % i, "body": "alpha " * (1 + i % 3) + "filler", "tag": "t%d" % (i % 3)} for i in range(9)]
    add = {"keyword_fields": [{"name": "tag", "stored": True, "indexed": True, "fast": True}]}
    n = 0
    for q in ({"type": "match_all"}, "alpha"):
        cur = None
        first = None
        for page in range(6):
            r = dict(REQ_BASE, query=q, limit=3, execution="wand", aggs={"tags": {"type": "terms", "field": "tag", "size": 10}})
            if cur:
                r["cursor"] = cur
            out, err = drive_search({"schema": None, "schema_add": add, "batches": [docs[:5], docs[5:]], "requests": [r]})
            if out is None or 'ok' not in out[0]:
                return dict(found=False, note='search driver failed: %s' % (err or str(out)[:200]))
            ag = {b['key']: b['doc_count'] for b in ((out[0]['ok'].get('aggregations') or {}).get('tags') or {}).get('buckets', [])}
            if first is None:
                first = ag
            elif ag != first:
                return dict(found=True, cmd='%s search <<< hex(json) (one request per page)' % BIN,
                            input='9 documents in 2 segments, query %s, limit 3, terms aggregation on tag, page %d of the cursor walk' % (_json.dumps(q), page),
                            observed='buckets %s' % ag, expected='%s (the aggregations of the first page: they depend on query, filter and index only)' % first)
            n += 1
            cur = out[0]['ok'].get('next_cursor')
            if not cur:
                break
    return dict(found=False, note='aggregations across pages: %d pages agree with their first page' % n)


# ---------------------------------------------------------------- U29 filter trees with nested objects
def _flt_ref(f, scope):
    """documented semantics (C08) on the JSON of a document / a bound object"""
    (kind, arg), = f.items()
    if kind == 'KeywordEq':
        v = scope.get(arg['field'])
        vals = v if isinstance(v, list) else ([] if v is None else [v])
        return any(isinstance(x, str) and x.lower() == arg['value'].lower() for x in vals)
    if kind == 'I64Range':
        v = scope.get(arg['field'])
        vals = v if isinstance(v, list) else ([] if v is None else [v])
        return any(arg['min'] <= x <= arg['max'] for x in vals)
    if kind == 'Nested':
        return any(_flt_ref(arg['filter'], o) for o in (scope.get(arg['path']) or []))
    if kind == 'And':
        return _flt_list(arg, scope)
    if kind == 'Or':
        return any(_flt_ref(g, scope) for g in arg)
    if kind == 'Not':
        return not _flt_ref(arg, scope)
    raise ValueError(kind)


def _flt_list(fs, scope):
    paths = []
    for g in fs:
        (kind, arg), = g.items()
        if kind == 'Nested':
            if arg['path'] not in paths:
                paths.append(arg['path'])
        elif not _flt_ref(g, scope):
            return False
    for p in paths:
        inner = [list(g.values())[0]['filter'] for g in fs if list(g.keys())[0] == 'Nested' and list(g.values())[0]['path'] == p]
        if not any(_flt_list(inner, o) for o in (scope.get(p) or [])):
            return False
    return True


def w_filters(failure, tier):
    """filter trees over documents with two levels of nested objects, against the documented semantics"""
    kw = lambda n: {"type": "keyword", "name": n, "stored": True, "indexed": True, "fast": True, "nullable": True}
    add = {"nested_fields": [{"name": "c", "fields": [kw("a"), kw("t"), {"type": "object", "name": "r", "fields": [kw("u"), kw("v")], "nullable": True}], "nullable": True}],
           "keyword_fields": [{"name": "k", "stored": True, "indexed": True, "fast": True, "nullable": True}]}
    docs = [
        {"_id": "d0", "body": "x", "k": "red", "c": [{"a": "alice", "t": "x", "r": [{"u": "p", "v": "1"}, {"u": "q", "v": "2"}]}, {"a": "bob", "t": "y", "r": [{"u": "p", "v": "2"}]}]},
        {"_id": "d1", "body": "x", "k": "blue", "c": [{"a": "alice", "t": "y", "r": [{"u": "q", "v": "1"}]}]},
        {"_id": "d2", "body": "x", "k": "RED", "c": [{"a": "Bob", "t": "x", "r": []}, {"a": "carol", "t": "x", "r": [{"u": "p", "v": "1"}, {"u": "p", "v": "2"}]}]},
        {"_id": "d3", "body": "x", "k": "green", "c": []},
        {"_id": "d4", "body": "x", "k": "red", "c": [{"a": "alice", "t": "x", "r": [{"u": "q", "v": "2"}]}, {"a": "alice", "t": "z", "r": [{"u": "p", "v": "1"}]}]},
    ]
    eq = lambda f, v: {"KeywordEq": {"field": f, "value": v}}
    nest = lambda p, g: {"Nested": {"path": p, "filter": g}}
    leaves_c = [eq("a", "alice"), eq("a", "BOB"), eq("t", "x"), eq("t", "y")]
    leaves_r = [eq("u", "p"), eq("u", "q"), eq("v", "1"), eq("v", "2")]
    filters = []
    for a in leaves_c:
        filters.append(nest("c", a))
        for b in leaves_c:
            if a is not b:
                filters.append({"And": [nest("c", a), nest("c", b)]})                  # siblings share one object
                filters.append(nest("c", {"And": [a, b]}))
                filters.append({"Or": [nest("c", a), nest("c", {"Not": b})]})
    for x in leaves_r:
        for y in leaves_r:
            if x is not y:
                filters.append(nest("c", {"And": [nest("r", x), nest("r", y)]}))         # one reply under one comment
                filters.append({"And": [nest("c", nest("r", x)), nest("c", nest("r", y))]})   # siblings two levels deep
                filters.append(nest("c", {"And": [eq("a", "alice"), nest("r", {"And": [x, y]})]}))
                filters.append({"And": [eq("k", "red"), nest("c", nest("r", x)), {"Not": nest("c", nest("r", y))}]})
    # inclusive numeric ranges, any value of a multi-valued field / of the bound object
    add["numeric_fields"] = [{"name": "n", "i64": True, "fast": True, "stored": True, "nullable": True}]
    add["nested_fields"][0]["fields"].append({"type": "numeric", "name": "s", "i64": True, "fast": True, "stored": True, "nullable": True})
    nums = [[1, 5], 3, [7], None, [2, 9]]
    for d, nv in zip(docs, nums):
        if nv is not None:
            d["n"] = nv
        for j, o in enumerate(d["c"]):
            o["s"] = [j + 1, 10 * (j + 1)] if j % 2 == 0 else 4
    rng = lambda f, a, b: {"I64Range": {"field": f, "min": a, "max": b}}
    for (a, b) in ((1, 1), (2, 2), (3, 3), (4, 4), (5, 6), (6, 8), (9, 9), (10, 10), (0, 0), (2, 4), (11, 19), (20, 20)):
        filters.append(rng("n", a, b))
        filters.append(nest("c", rng("s", a, b)))
        filters.append(nest("c", {"And": [eq("a", "alice"), rng("s", a, b)]}))
        filters.append({"Not": nest("c", rng("s", a, b))})
    reqs = [dict(REQ_BASE, query={"type": "match_all"}, limit=50, filter=f) for f in filters]
    out, err = drive_search({"schema": None, "schema_add": add, "batches": [docs[:3], docs[3:]], "requests": reqs})
    if out is None:
        return dict(found=False, note='search driver failed: %s' % err)
    n = 0
    for f, o in zip(filters, out):
        if 'ok' not in o:
            return dict(found=False, note='filter request rejected: %s / %s' % (_json.dumps(f)[:120], str(o)[:200]))
        got = sorted(h['doc_id'] for h in o['ok']['hits'])
        want = sorted(d['_id'] for d in docs if _flt_ref(f, d))
        n += 1
        if got != want:
            return dict(found=True, cmd='%s search <<< hex(json)' % BIN, input='5 documents with comments (c) and replies (c.r); match_all with filter %s' % _json.dumps(f),
                        observed='hits %s' % got, expected='%s (documented nested semantics: one object per nested path, shared by sibling clauses, belonging to the enclosing bound object)' % want)
    return dict(found=False, note='filter trees: %d filters over nested documents agree with the documented semantics' % n)


# ---------------------------------------------------------------- U33 top_hits sizing
def w_tophits(failure, tier):
    """top_hits with any size / from a request can carry: a response, never a panic"""
    docs = [{"_id": "d%d" % i, "body": "alpha filler"} for i in range(4)]
    big = 18446744073709551615
    reqs = []
    for frm, size in ((0, 3), (1, big), (1, big - 1), (0, big), (big, big), (big, 1), (2, big - 2), (0, 0)):
        reqs.append(dict(REQ_BASE, query="alpha", limit=2, aggs={"th": {"type": "top_hits", "size": size, "from": frm}}))
    for batches in ([docs], [docs[:2], docs[2:]]):
        out, err = drive_search({"schema": None, "batches": batches, "requests": reqs})
        if out is None:
            return dict(found=False, note='search driver failed: %s' % err)
        for r, o in zip(reqs, out):
            if 'panic' in o:
                return dict(found=True, cmd='%s search <<< hex(json)' % BIN,
                            input='4 documents in %d segment(s), query "alpha" with aggregation %s' % (len(batches), _json.dumps(r['aggs'])),
                            observed='PANIC ' + str(o['panic'])[:200], expected='a response (Ok or Err): no request may panic the search')
    # C12: the window [from, from + size) of top_hits does not depend on how the documents are spread over segments
    docs6 = [{"_id": "d%d" % i, "body": "alpha filler"} for i in range(6)]
    wins = [(0, 3), (1, 3), (2, 2), (3, 3), (5, 4), (6, 1)]
    wreqs = [dict(REQ_BASE, query="alpha", limit=2, aggs={"th": {"type": "top_hits", "size": size, "from": frm}}) for (frm, size) in wins]
    ref = None
    for batches in ([docs6], [docs6[:3], docs6[3:]], [docs6[:2], docs6[2:4], docs6[4:]], [docs6[:1], docs6[1:]]):
        out, err = drive_search({"schema": None, "batches": batches, "requests": wreqs})
        if out is None:
            return dict(found=False, note='search driver failed: %s' % err)
        got = [[h['doc_id'] for h in o['ok']['aggregations']['th']['hits']] if 'ok' in o else str(o)[:80] for o in out]
        if ref is None:
            ref = got
        elif got != ref:
            k = [i for i in range(len(got)) if got[i] != ref[i]][0]
            return dict(found=True, cmd='%s search <<< hex(json)' % BIN,
                        input='6 documents in %d segments, query "alpha", top_hits from %d size %d' % (len(batches), wins[k][0], wins[k][1]),
                        observed='hits %s' % got[k], expected='%s (what a single segment returns: the offset is applied once, to the merged hits)' % ref[k])
    return dict(found=False, note='top_hits: %d requests with extreme size / from answered without panic; %d windows identical over 4 segmentations' % (2 * len(reqs), len(wins)))


def w_explain_budget(failure, tier):
    """pruned executors, more matches than the page asks for: the same request with explain off and on must report the same
    hits, scores, match total and cursor (the budget the pruning executor works with must not depend on explain)"""
    docs = []
    for i in range(90):
        body = ("rust " * (1 + (i * 7) % 5)) + ("engine " * ((i * 3) % 4)) + "filler " * (i % 6)
        docs.append({"_id": "d%02d" % i, "body": body.strip()})
    queries = ["rust", {"type": "bool", "should": [{"type": "term", "field": "body", "value": "rust"}, {"type": "term", "field": "body", "value": "engine"}]}]
    reqs = []
    for q in queries:
        for ex in ("wand", "bmw"):
            for limit in (1, 2, 5):
                for explain in (False, True):
                    reqs.append(dict(REQ_BASE, query=q, limit=limit, execution=ex, explain=explain))
    out, err = drive_search({"schema": None, "batches": [docs[:50], docs[50:]], "requests": reqs})
    if out is None:
        return dict(found=False, note='search driver failed: %s' % err)
    n = 0
    for i in range(0, len(reqs), 2):
        a, b = out[i], out[i + 1]
        if 'ok' not in a or 'ok' not in b:
            if ('ok' in a) != ('ok' in b):
                return dict(found=True, cmd='%s search' % BIN, input=_json.dumps(reqs[i]['query']), observed='explain off: %s / explain on: %s' % (str(a)[:150], str(b)[:150]), expected='same outcome')
            continue
        n += 1
        va = dict(hits=[(h['doc_id'], h['score']) for h in a['ok']['hits']], total=a['ok'].get('total_hits_estimate'), cursor=a['ok'].get('next_cursor'))
        vb = dict(hits=[(h['doc_id'], h['score']) for h in b['ok']['hits']], total=b['ok'].get('total_hits_estimate'), cursor=b['ok'].get('next_cursor'))
        if va != vb:
            return dict(found=True, cmd='%s search <<< hex(json)' % BIN,
                        input='90 documents in 2 segments; query %s, limit %d, execution %s, run with explain false and true' % (_json.dumps(reqs[i]['query']), reqs[i]['limit'], reqs[i]['execution']),
                        observed='explain off: %s ; explain on: %s' % (va, vb), expected='identical hits, scores, match total and cursor')
    return dict(found=False, note='explain and the pruning budget: %d request pairs (wand / bmw, limit 1-5, 90 documents in 2 segments) agree in hits, scores, match total and cursor' % n)


def w_boost(failure, tier):
    """a boost scales the score of the query it sits on by exactly that factor, wherever the query sits: wrapping a scoring
    query Q in bool{boost: B, must: [Q]} or dis_max{boost: B, queries: [Q]}, or setting Q's own boost to B, multiplies every
    hit's score by B (up to float rounding)"""
    docs = []
    for i in range(10):
        docs.append({"_id": "d%02d" % i, "body": ("rust " * (1 + i % 3)) + ("engine " * (i % 2)) + "search", "title": "rust book" if i % 2 else "engine manual",
                     "k": "en" if i % 3 else "de", "pop": float(1 + i)})
    add = {"keyword_fields": [{"name": "k", "stored": True, "indexed": True, "fast": True}],
           "numeric_fields": [{"name": "pop", "i64": False, "fast": True, "stored": True}],
           "text_fields": [{"name": "title", "analyzer": "default", "search_analyzer": None, "stored": True, "indexed": True, "nullable": False}]}
    t = lambda v: {"type": "term", "field": "body", "value": v}
    inners = [
        ("term", t("rust")),
        ("prefix", {"type": "prefix", "field": "body", "value": "eng"}),
        ("wildcard", {"type": "wildcard", "field": "body", "value": "ru*"}),
        ("regex", {"type": "regex", "field": "body", "value": "rus."}),
        ("query_string", {"type": "query_string", "query": "rust engine"}),
        ("multi_match", {"type": "multi_match", "query": "rust engine", "fields": [{"field": "body"}, {"field": "title", "boost": 2.0}]}),
        ("dis_max", {"type": "dis_max", "tie_breaker": 0.3, "queries": [t("rust"), t("engine")]}),
        ("bool", {"type": "bool", "should": [t("rust"), t("engine")]}),
        ("constant_score", {"type": "constant_score", "filter": {"KeywordEq": {"field": "k", "value": "en"}}}),
        ("rank_feature", {"type": "rank_feature", "field": "pop"}),
        ("function_score", {"type": "function_score", "query": t("rust"), "functions": [{"type": "field_value_factor", "field": "pop", "factor": 1.0}], "boost_mode": "sum"}),
        ("function_score/multiply", {"type": "function_score", "query": t("rust"), "functions": [{"type": "weight", "weight": 1.5}]}),
        ("script_score", {"type": "script_score", "query": t("rust"), "script": "_score + pop * 0.1"}),
    ]
    skip = set((failure or {}).get('skip_cases') or [])
    reqs, meta = [], []
    for (name, q) in inners:
        if name in skip:
            continue
        for B in (1.0, 2.0, 0.5, 3.0):
            own = dict(q, boost=B)
            for (shape, wrapped) in (("bool", {"type": "bool", "must": [q], "boost": B}), ("dis_max", {"type": "dis_max", "queries": [q], "boost": B}), ("own", own),
                                     ("bool>dis_max", {"type": "bool", "boost": B, "must": [{"type": "dis_max", "queries": [q]}]})):
                reqs.append(dict(REQ_BASE, query=wrapped, limit=50))
                meta.append((name, shape, B, wrapped))
    out, err = drive_search({"schema": None, "schema_add": add, "batches": [docs[:5], docs[5:]], "requests": reqs})
    if out is None:
        return dict(found=False, note='search driver failed: %s' % err)
    base = {}
    n = 0
    for (m, o) in zip(meta, out):
        name, shape, B, wrapped = m
        if 'ok' not in o:
            continue
        sc = dict((h['doc_id'], h['score']) for h in o['ok']['hits'])
        if B == 1.0:
            base[(name, shape)] = sc
            continue
        ref = base.get((name, shape))
        if ref is None:
            continue
        n += 1
        for d, v in sorted(ref.items()):
            got = sc.get(d)
            want = B * v
            if got is None or abs(got - want) > 1e-4 * max(1.0, abs(want)):
                return dict(found=True, cmd='%s search <<< hex(json)' % BIN,
                            input='10 documents in 2 segments; query %s, compared with the same query at boost 1' % _json.dumps(wrapped),
                            observed='document %s scores %s at boost %s and %s at boost 1' % (d, got, B, v), expected='%s (= %s x %s)' % (want, B, v))
    return dict(found=False, note='boosts: %d (query kind, placement, boost) comparisons scale every hit score by exactly the boost' % n)


def w_collapse(failure, tier):
    """collapse against the uncollapsed ranking of the same request: one hit per value of the field - the first hit of the
    ranking carrying it - groups in the order of those hits, documents without a value dropped, inner hits the other hits of
    the same value in ranking order (or inner sort order), cut by from and size"""
    docs = []
    vals = ["a", "b", None, "c", "a", "b", "b", None, "d", "a", "c", "e", "b", "a"]
    for i, v in enumerate(vals):
        d = {"_id": "d%02d" % i, "body": "rust " * (1 + (i * 5) % 4) + "engine " * (i % 3), "rating": float((i * 7) % 5)}
        if v is not None:
            d["k"] = v
        docs.append(d)
    kof = dict((d["_id"], d.get("k")) for d in docs)
    rating = dict((d["_id"], d["rating"]) for d in docs)
    add = {"keyword_fields": [{"name": "k", "stored": True, "indexed": True, "fast": True, "nullable": True}],
           "numeric_fields": [{"name": "rating", "i64": False, "fast": True, "stored": True}]}
    sorts = [None, [{"field": "rating", "order": "desc"}], [{"field": "rating", "order": "asc"}, {"field": "_score", "order": "desc"}]]
    inners = [None, {}, {"size": 2}, {"from": 1}, {"from": 1, "size": 1}, {"size": 0}, {"from": 9},
              {"sort": [{"field": "rating", "order": "asc"}], "size": 3}, {"sort": [{"field": "rating", "order": "desc"}], "size": 1},
              {"sort": [{"field": "rating", "order": "desc"}], "from": 1, "size": 1}, {"sort": [{"field": "rating", "order": "asc"}], "from": 2}]
    reqs, meta = [], []
    for q in ("rust", {"type": "match_all"}):
        for srt in sorts:
            base = dict(REQ_BASE, query=q, limit=50)
            if srt:
                base["sort"] = srt
            reqs.append(base)
            meta.append(('ref', None))
            for ih in inners:
                if ih is not None and not ih.get("sort") and srt:
                    continue    # inner hits without a sort of their own are ordered by score: only comparable when the request sorts the same way
                c = {"field": "k"}
                if ih is not None:
                    c["inner_hits"] = ih
                reqs.append(dict(base, collapse=c))
                meta.append(('col', ih))
    out, err = drive_search({"schema": None, "schema_add": add, "batches": [docs[:5], docs[5:9], docs[9:]], "requests": reqs})
    if out is None:
        return dict(found=False, note='search driver failed: %s' % err)
    n = 0
    ref = None
    for r, m, o in zip(reqs, meta, out):
        if 'ok' not in o:
            return dict(found=False, note='collapse request rejected: %s' % str(o)[:200])
        if m[0] == 'ref':
            ref = [h['doc_id'] for h in o['ok']['hits']]
            continue
        ih = m[1]
        seen, want = [], []
        for d in ref:
            k = kof[d]
            if k is None or k in seen:
                continue
            seen.append(k)
            others = [x for x in ref if kof[x] == k and x != d]
            if ih is None:
                inner = []
            else:
                if ih.get("sort"):
                    desc = ih["sort"][0]["order"] == "desc"
                    others = sorted(others, key=lambda x: (-rating[x] if desc else rating[x], x))     # ties: segment, then document order = id order here
                inner = others[ih.get("from", 0):]
                if "size" in ih:
                    inner = inner[:ih["size"]]
            want.append((d, inner))
        got = [(h['doc_id'], [x['doc_id'] for x in (h.get('inner_hits') or [])]) for h in o['ok']['hits']]
        n += 1
        if got != want or o['ok'].get('total_groups') != len(want):
            return dict(found=True, cmd='%s search <<< hex(json)' % BIN,
                        input='14 documents in 3 segments (k values %s); query %s, sort %s, collapse %s' % (vals, _json.dumps(r['query']), _json.dumps(r.get('sort')), _json.dumps(r['collapse'])),
                        observed='groups %s total_groups %s' % (got, o['ok'].get('total_groups')), expected='groups %s total_groups %d (from the uncollapsed ranking %s)' % (want, len(want), ref))
    # the page size must not change the groups: a request with a small limit returns the first groups of the same request
    # with a large one, with the same inner hits and the same number of groups
    gadd = {"numeric_fields": [{"name": "rank", "i64": True, "fast": True, "stored": True}], "keyword_fields": [{"name": "grp", "stored": True, "indexed": True, "fast": True}]}
    gdocs = [{"_id": i, "body": "alpha", "grp": g, "rank": r} for (i, g, r) in
             (("a1", "a", 1), ("a2", "a", 2), ("a3", "a", 3), ("a4", "a", 4), ("b1", "b", 5), ("c1", "c", 6), ("a5", "a", 7))]
    creq = dict(REQ_BASE, query={"type": "match_all"}, limit=10, sort=[{"field": "rank", "order": "asc"}],
                collapse={"field": "grp", "inner_hits": {"size": 10, "sort": [{"field": "rank", "order": "desc"}]}})
    for batches in ([gdocs], [gdocs[:3], gdocs[3:]]):
        out, err = drive_search({"schema": None, "schema_add": gadd, "batches": batches, "requests": [creq, dict(creq, limit=2)]})
        if out is None or any('ok' not in o for o in out):
            return dict(found=False, note='search driver failed: %s' % (err or str(out)[:300]))
        def groups(o):
            return [(h['doc_id'], [ih['doc_id'] for ih in (h.get('inner_hits') or [])]) for h in o['ok']['hits']]
        big, small = groups(out[0]), groups(out[1])
        n += 1
        if small != big[:2] or out[1]['ok'].get('total_groups') != out[0]['ok'].get('total_groups'):
            return dict(found=True, cmd='%s search <<< hex(json)' % BIN,
                        input='a1..a4 (group a, rank 1..4), b1 (b, 5), c1 (c, 6), a5 (a, 7) in %d segment(s); match_all sorted by rank, collapse on grp with inner hits by rank desc; limit 2' % len(batches),
                        observed='groups %s, total_groups %s' % (small, out[1]['ok'].get('total_groups')),
                        expected='%s, total_groups %s (the first two groups of the same request with limit 10)' % (big[:2], out[0]['ok'].get('total_groups')))
    return dict(found=False, note='collapse: %d requests (2 queries x 3 sorts x up to 11 inner_hits settings, and small against large pages) agree with the uncollapsed ranking' % n)


def w_relocate(failure, tier):
    """an index built on the file system, copied to another directory; the COPY is searched, written to, committed and
    compacted: the original directory must be byte-for-byte what it was and still open, the copy must serve the same hits,
    and keep working once the original is deleted"""
    import tempfile
    base = os.path.join(os.path.dirname(os.path.dirname(os.path.abspath(__file__))), '.cache', 'relocate-%d' % os.getpid())
    n = 0
    for (nseg, orig, copy) in ((1, "a", "b"), (2, "a", "b"), (3, "a", "b"), (2, "idx-2024", "idx"), (2, "idx", "idx-restored")):
        docs = [[{"_id": "d%d_%d" % (b, i), "body": "rust search %d" % i} for i in range(3)] for b in range(nseg)]
        case = {"dir": base, "orig": orig, "copy": copy, "docs": docs, "more": [{"_id": "x1", "body": "rust extra"}], "query": "rust"}
        r = drive('relocate', [_json.dumps(case).encode()])[0]
        if not r.startswith('OK '):
            return dict(found=False, note='relocate driver failed: %s' % r[:300])
        d = _json.loads(r[3:])
        run = d.get('run') or {}
        n += 1
        problems = []
        if 'panic' in d:
            problems.append('panic: %s' % d['panic'])
        if run.get('open_copy') != 'ok':
            problems.append('the copy does not open: %s' % run.get('open_copy'))
        if run.get('original_after') != d.get('original_before'):
            gone = [f[0] for f in d.get('original_before', []) if f not in (run.get('original_after') or [])]
            problems.append('files of the ORIGINAL directory changed or disappeared: %s' % gone)
        if run.get('hits_original_after') != d.get('hits_original'):
            problems.append('the original index afterwards: %s' % _json.dumps(run.get('hits_original_after'))[:200])
        if run.get('hits_copy') != d.get('hits_original'):
            problems.append('the copy serves %s, the original %s' % (_json.dumps(run.get('hits_copy'))[:200], _json.dumps(d.get('hits_original'))[:200]))
        if run.get('log'):
            problems.append('writes through the copy failed: %s' % run.get('log'))
        if 'Ok' not in (run.get('hits_copy_alone') or {}) or run.get('hits_copy_alone') != run.get('hits_copy_after_writes'):
            problems.append('the copy on its own (original deleted): %s' % _json.dumps(run.get('hits_copy_alone'))[:200])
        if problems:
            return dict(found=True, cmd='%s relocate <<< hex(json)' % BIN,
                        input='index of %d segment(s) built at <dir>/%s, copied to <dir>/%s; through the copy: search, add one document, commit, compact' % (nseg, orig, copy),
                        observed='; '.join(problems), expected='the original directory untouched and still serving its hits; the copy self-contained')
    return dict(found=False, note='relocation: %d indexes (1-3 segments; also directory names that are textual prefixes of one another) copied, the copy searched / committed / compacted: the original directory is untouched, the copy is self-contained' % n)


def w_completion(failure, tier):
    """completion suggestions against the corpus: each option is a term of the field that starts with the prefix, its doc_freq
    is the number of documents containing it, options come by score descending then text, at most `size` of them - and the
    answer is the same however the documents are spread over segments, as long as fewer terms than the scan cap (64) match"""
    n = 0
    for nterms, copies in ((40, 3), (12, 4), (30, 2)):
        terms = ["pre%02d" % i for i in range(nterms)]
        docs = []
        for b in range(copies):
            for i, t in enumerate(terms):
                if (i + b) % 5 != 4:      # not every term in every batch
                    docs.append({"_id": "d%d_%d" % (b, i), "body": t + " filler"})
        truth = {}
        for d in docs:
            t = d["body"].split()[0]
            truth[t] = truth.get(t, 0) + 1
        per = (len(docs) + copies - 1) // copies
        layouts = [[docs], [docs[i:i + per] for i in range(0, len(docs), per)], [docs[i:i + 7] for i in range(0, len(docs), 7)]]
        for size in (3, 5, 10):
            req = dict(REQ_BASE, query={"type": "match_all"}, limit=1, suggest={"s": {"type": "completion", "field": "body", "prefix": "pre", "size": size}})
            want = sorted(truth.items(), key=lambda kv: (-kv[1], kv[0]))[:size]
            for li, batches in enumerate(layouts):
                out, err = drive_search({"schema": None, "batches": batches, "requests": [req]})
                if out is None or 'ok' not in out[0]:
                    return dict(found=False, note='search driver failed: %s' % (err or str(out)[:200]))
                opts = out[0]['ok'].get('suggest', {}).get('s', {}).get('options', [])
                got = [(o['text'], o['doc_freq']) for o in opts]
                n += 1
                if got != want:
                    return dict(found=True, cmd='%s search <<< hex(json)' % BIN,
                                input='%d documents over %d terms pre00.. in %d segment(s); completion on body, prefix "pre", size %d' % (len(docs), nterms, len(batches), size),
                                observed='options %s' % got, expected='%s (term, number of documents containing it), by count descending then text' % want)
        # fuzzy completion: 13 of the terms lie within one edit of "pre00" (fewer than the expansion cap of 20): the answer
        # must not depend on the layout
        freq = dict(REQ_BASE, query={"type": "match_all"}, limit=1,
                    suggest={"s": {"type": "completion", "field": "body", "prefix": "pre00", "size": 8,
                                   "fuzzy": {"max_edits": 1, "prefix_length": 3, "max_expansions": 20, "min_length": 3}}})
        ref = None
        for li, batches in enumerate(layouts):
            out, err = drive_search({"schema": None, "batches": batches, "requests": [freq]})
            if out is None or 'ok' not in out[0]:
                return dict(found=False, note='search driver failed: %s' % (err or str(out)[:200]))
            got = [(o['text'], o['doc_freq'], round(o['score'], 4)) for o in out[0]['ok'].get('suggest', {}).get('s', {}).get('options', [])]
            n += 1
            if ref is None:
                ref = got
            elif got != ref:
                return dict(found=True, cmd='%s search <<< hex(json)' % BIN,
                            input='%d documents over %d terms pre00.. ; fuzzy completion on body, prefix "pre00", max_edits 1, max_expansions 20, size 8; one segment against %d segments' % (len(docs), nterms, len(batches)),
                            observed='%d segments: %s' % (len(batches), got), expected='%s (the single-segment answer)' % ref)
    # two terms at edit distance 2 (weight 1/3, not exact in f32) with the same document count: score and order must not
    # depend on how the documents are spread over segments
    d2 = [{"_id": "e%02d" % i, "body": b} for i, b in enumerate(["abcxy"] * 2 + ["abcxy abcaa"] * 7 + ["abcaa"] * 2)]
    freq = dict(REQ_BASE, query={"type": "match_all"}, limit=1,
                suggest={"s": {"type": "completion", "field": "body", "prefix": "abcde", "size": 1,
                               "fuzzy": {"max_edits": 2, "prefix_length": 1, "max_expansions": 20, "min_length": 2}}})
    ref = None
    for batches in ([d2], [d2[:2], d2[2:]], [d2[:4], d2[4:8], d2[8:]], [[d] for d in d2]):
        out, err = drive_search({"schema": None, "batches": batches, "requests": [freq]})
        if out is None or 'ok' not in out[0]:
            return dict(found=False, note='search driver failed: %s' % (err or str(out)[:200]))
        got = [(o['text'], o['doc_freq'], o['score']) for o in out[0]['ok'].get('suggest', {}).get('s', {}).get('options', [])]
        n += 1
        if ref is None:
            ref = got
        elif got != ref:
            return dict(found=True, cmd='%s search <<< hex(json)' % BIN,
                        input='11 documents: "abcxy" x2, "abcxy abcaa" x7, "abcaa" x2 (both terms in 9 documents, both 2 edits from the prefix); fuzzy completion on body, prefix "abcde", max_edits 2, prefix_length 1, size 1; one segment against %d segments' % len(batches),
                        observed='%d segments: %s' % (len(batches), got), expected='%s (the single-segment answer)' % ref)
    # fuzzy completion finds the term itself, with its document count, whatever alphabet it is written in
    words = ["éèêàù", "привет", "καλημέρα", "日本語", "hello"]
    docs = [{"_id": "w%d_%d" % (i, c), "body": w} for i, w in enumerate(words) for c in range(2)]
    for w in words:
        freq = dict(REQ_BASE, query={"type": "match_all"}, limit=1,
                    suggest={"s": {"type": "completion", "field": "body", "prefix": w, "size": 5,
                                   "fuzzy": {"max_edits": 1, "prefix_length": 1, "max_expansions": 20, "min_length": 2}}})
        out, err = drive_search({"schema": None, "batches": [docs], "requests": [freq]})
        if out is None or 'ok' not in out[0]:
            return dict(found=False, note='search driver failed: %s' % (err or str(out)[:200]))
        got = [(o['text'], o['doc_freq']) for o in out[0]['ok'].get('suggest', {}).get('s', {}).get('options', [])]
        n += 1
        if (w.lower(), 2) not in got:
            return dict(found=True, cmd='%s search <<< hex(json)' % BIN,
                        input='10 documents, two for each of %s; fuzzy completion on body, prefix %s, max_edits 1' % (words, _json.dumps(w, ensure_ascii=False)),
                        observed='options %s' % got, expected='the term itself with doc_freq 2 among the options')
    # one edit is one CHARACTER: a prefix that lacks (or has one extra) multi-byte character is within max_edits 1 of the term
    pairs = [("jalapeo", "jalapeño"), ("mller", "müller"), ("приет", "привет"), ("日語", "日本語"), ("jalapeñño", "jalapeño")]
    docs = [{"_id": "m%d_%d" % (i, c), "body": t} for i, (_p, t) in enumerate(pairs[:4]) for c in range(2)]
    for (pfx, term) in pairs:
        freq = dict(REQ_BASE, query={"type": "match_all"}, limit=1,
                    suggest={"s": {"type": "completion", "field": "body", "prefix": pfx, "size": 5,
                                   "fuzzy": {"max_edits": 1, "prefix_length": 1, "max_expansions": 20, "min_length": 2}}})
        out, err = drive_search({"schema": None, "batches": [docs[:4], docs[4:]], "requests": [freq]})
        if out is None or 'ok' not in out[0]:
            return dict(found=False, note='search driver failed: %s' % (err or str(out)[:200]))
        got = [(o['text'], o['doc_freq']) for o in out[0]['ok'].get('suggest', {}).get('s', {}).get('options', [])]
        n += 1
        if (term, 2) not in got:
            return dict(found=True, cmd='%s search <<< hex(json)' % BIN,
                        input='8 documents in 2 segments, two for each of %s; fuzzy completion on body, prefix %s (one character away from %s), max_edits 1' % ([t for (_p, t) in pairs[:4]], _json.dumps(pfx, ensure_ascii=False), _json.dumps(term, ensure_ascii=False)),
                        observed='options %s' % got, expected='%s with doc_freq 2 among the options' % term)
    return dict(found=False, note='completion: %d (corpus, size, segment layout) combinations agree with the document counts of the corpus (prefix) or with the single-segment answer (fuzzy)' % n)


def w_accept(failure, tier):
    """documents that break the schema in one way each, queued between good ones: whatever add_document accepts, the next
    commit must apply - a commit never fails because of a queued document (and so never blocks the documents after it)"""
    kw = lambda n: {"type": "keyword", "name": n, "stored": True, "indexed": True, "fast": True, "nullable": False}
    add = {"numeric_fields": [{"name": "n", "i64": True, "fast": True, "stored": True, "nullable": False}],
           "keyword_fields": [{"name": "k", "stored": True, "indexed": True, "fast": True, "nullable": False}],
           "nested_fields": [{"name": "c", "fields": [kw("a")], "nullable": False}]}
    good = lambda i: {"_id": "g%d" % i, "body": "rust %d" % i, "n": i, "k": "x", "c": [{"a": "u"}]}
    odd = [
        ("an unknown top-level field", dict(good(100), color="red")),
        ("an unknown top-level field holding an object", dict(good(101), extra={"a": 1})),
        ("a string in a numeric field", dict(good(102), n="seven")),
        ("null in a non-nullable keyword field", dict(good(103), k=None)),
        ("null in a non-nullable nested field", dict(good(104), c=None)),
        ("a nested element that is not an object", dict(good(105), c=["text"])),
        ("an array inside the array of a nested field", dict(good(109), c=[[{"a": "u"}]])),
        ("an empty array inside the array of a nested field", dict(good(110), c=[[]])),
        ("a null slot in the array of a non-nullable nested field", dict(good(111), c=[{"a": "u"}, None])),
        ("only a null in the array of a non-nullable nested field", dict(good(112), c=[None])),
        ("an unknown field inside a nested object", dict(good(106), c=[{"a": "u", "zz": 1}])),
        ("a number in a text field", dict(good(107), body=42)),
        ("a blank id", dict(good(108), _id="  ")),
        ("no id", {"body": "rust"}),
    ]
    cases = []
    for (what, doc) in odd:
        cases.append((what, {"schema_add": add, "ops": [["add", good(1)], ["add", doc], ["commit"], ["add", good(2)], ["commit"]]}))
    outs = drive('history', [_json.dumps(c).encode() for (_w, c) in cases])
    n = 0
    for (what, c), r in zip(cases, outs):
        if not r.startswith('OK '):
            return dict(found=False, note='history driver failed: %s' % r[:300])
        d = _json.loads(r[3:])
        n += 1
        bad = [l for l in d.get('log', []) if 'commit failed' in l]
        if bad:
            accepted = not any(l.startswith('add failed') for l in d.get('log', []))
            return dict(found=True, cmd='%s history <<< hex(json)' % BIN,
                        input='a good document, then a document with %s (%s), commit, another good document, commit' % (what, _json.dumps(c['ops'][1][1])),
                        observed='%s; log: %s; live afterwards: %s' % ('add_document accepted it' if accepted else 'add_document refused something', d.get('log'), [x[0] for x in d.get('live', [])]),
                        expected='no commit fails: a document is either refused by add_document or committed')
    return dict(found=False, note='accepted documents: %d histories, each queueing one schema-breaking document between good ones: every commit succeeds' % n)


# ---------------------------------------------------------------- the HTTP front end (real server on a loopback port)
HTTP_DRIVER_DIR = os.path.join(VERIF, 'driver-http')
HTTP_TARGET = os.path.join(VERIF, '.cache', 'driver-http-target')
HTTP_BIN = os.path.join(HTTP_TARGET, 'debug', 'verif-driver-http')
_http_built = dict(ok=None, log='')


def build_http_driver():
    if _http_built['ok'] is not None:
        return _http_built['ok']
    env = dict(os.environ, CARGO_NET_OFFLINE='true', CARGO_TARGET_DIR=HTTP_TARGET)
    lock = os.path.join(HTTP_DRIVER_DIR, 'Cargo.lock')
    if not os.path.exists(lock):
        import shutil
        shutil.copy('/repo/Cargo.lock', lock)
    p = subprocess.run(['cargo', 'build', '--offline', '-q'], cwd=HTTP_DRIVER_DIR, env=env, stdout=subprocess.PIPE,
                       stderr=subprocess.STDOUT, text=True, timeout=3600)
    _http_built['ok'] = (p.returncode == 0)
    _http_built['log'] = p.stdout[-2000:]
    return _http_built['ok']


def drive_http(cases):
    data = '\n'.join(_json.dumps(c).encode().hex() for c in cases) + '\n'
    p = subprocess.run([HTTP_BIN], input=data, stdout=subprocess.PIPE, stderr=subprocess.PIPE, text=True, timeout=900)
    return p.stdout.split('\n')[:len(cases)]


def w_http_queue(failure, tier):
    """the HTTP service as a queue: whatever /add, /bulk and /delete acknowledged is applied by the next /commit, in order,
    even when other write requests were refused in between; a refused request leaves nothing of its own behind"""
    if not build_http_driver():
        return dict(found=False, note='http driver failed to build from /repo: ' + _http_built['log'][-600:])
    schema = {"doc_id_field": "_id", "text_fields": [{"name": "body", "analyzer": "default", "stored": True, "indexed": True, "nullable": False}],
              "keyword_fields": [], "numeric_fields": []}
    nd = lambda docs: ''.join(_json.dumps(d) + '\n' for d in docs)
    good = lambda i: {"_id": "d%d" % i, "body": "rust %d" % i}
    bads = [{"body": "no id"}, {"_id": "  ", "body": "blank id"}, {"_id": "x", "body": 7}]
    base = os.path.join(VERIF, '.cache', 'http-%d' % os.getpid())
    cases, expect = [], []
    for bi, bad in enumerate(bads):
        for via in ("add", "bulk"):
            refused = (["POST", "/add", nd([good(2), bad, good(3)])] if via == "add"
                       else ["POST", "/bulk", _json.dumps({"docs": [good(2), bad, good(3)]})])
            reqs = [["POST", "/init", _json.dumps(schema)],
                    ["POST", "/add", nd([good(0)])],
                    ["POST", "/bulk", _json.dumps({"docs": [good(1)]})],
                    refused,
                    ["POST", "/add", nd([good(4)])],
                    ["POST", "/delete", _json.dumps({"ids": ["d1"]})],
                    ["POST", "/commit", ""],
                    ["POST", "/search", _json.dumps({"query": "rust", "limit": 20, "return_stored": False})]]
            cases.append({"dir": base, "requests": reqs})
            expect.append((via, bad, ["d0", "d4"]))
    outs = drive_http(cases)
    n = 0
    for c, (via, bad, want), r in zip(cases, expect, outs):
        if not r.startswith('OK '):
            return dict(found=False, note='http driver failed: %s' % r[:300])
        res = _json.loads(r[3:])
        n += 1
        st = [x.get('status') for x in res]
        problems = []
        if st[1] != 200 or st[2] != 200 or st[4] != 200 or st[5] != 200:
            problems.append('an acceptable write was not acknowledged: statuses %s' % st)
        if not (400 <= (st[3] or 0) < 500):
            problems.append('the request holding %s was answered %s' % (_json.dumps(bad), st[3]))
        try:
            hits = sorted(h['doc_id'] for h in _json.loads(res[7]['body'])['hits'])
        except Exception:
            hits = None
        if hits != want:
            problems.append('after /commit the index holds %s' % hits)
        if problems:
            return dict(found=True, cmd='%s <<< hex(json)' % HTTP_BIN,
                        input='real server; /init, /add d0, /bulk d1, %s [d2, %s, d3] (refused), /add d4, /delete d1, /commit, /search' % ('/' + via, _json.dumps(bad)),
                        observed='; '.join(problems) + '; statuses %s' % st, expected='the index holds %s: everything acknowledged, nothing of the refused request' % want)
    return dict(found=False, note='HTTP queue: %d request sequences against the real server: acknowledged writes survive refused requests, refused requests leave nothing behind' % n)


def w_compact(failure, tier):
    """segments with deleted documents at every position, then compact: the live documents (ids and stored bodies) afterwards
    are exactly the ones before"""
    cases, wants = [], []
    ids = ["a", "b", "c", "d", "e"]
    for dele in (["a"], ["c"], ["e"], ["a", "b"], ["d", "e"], ["a", "c", "e"], []):
        ops = [["add", {"_id": i, "body": "rust %s" % i}] for i in ids] + [["commit"]]
        ops += [["add", {"_id": "z%d" % k, "body": "more %d" % k}] for k in range(3)] + [["commit"]]
        ops += [["del", i] for i in dele] + [["commit"], ["compact"]]
        cases.append({"ops": ops})
        wants.append(sorted([i for i in ids if i not in dele] + ["z0", "z1", "z2"]))
    outs = drive('history', [_json.dumps(c).encode() for c in cases])
    n = 0
    for c, want, r in zip(cases, wants, outs):
        if not r.startswith('OK '):
            return dict(found=False, note='history driver failed: %s' % r[:300])
        d = _json.loads(r[3:])
        n += 1
        got = sorted(x[0] for x in d.get('live', []))
        if got != want or d.get('log'):
            return dict(found=True, cmd='%s history <<< hex(json)' % BIN,
                        input='segment 1: a b c d e; segment 2: z0 z1 z2; deleted %s; then compact' % [o[1] for o in c['ops'] if o[0] == 'del'],
                        observed='live afterwards: %s; log %s' % (got, d.get('log')), expected='live afterwards: %s' % want)
    # and the answers: queries, filters (plain and nested) and aggregations give the same documents, stored fields and
    # buckets before and after compaction (scores are not compared: segment statistics change)
    kw = lambda nme: {"type": "keyword", "name": nme, "stored": True, "indexed": True, "fast": True, "nullable": True}
    nm = lambda nme: {"type": "numeric", "name": nme, "i64": True, "fast": True, "stored": True, "nullable": True}
    add = {"keyword_fields": [{"name": "tag", "stored": True, "indexed": True, "fast": True, "nullable": True}],
           "numeric_fields": [{"name": "n", "i64": True, "fast": True, "stored": True, "nullable": True}, {"name": "x", "i64": False, "fast": True, "stored": True, "nullable": True}],
           "nested_fields": [{"name": "c", "nullable": True, "fields": [kw("a"), nm("m"), {"type": "object", "name": "r", "nullable": True, "fields": [kw("u")]}]}]}
    docs = []
    for i in range(16):
        d = {"_id": "d%02d" % i, "body": ("rust search " if i % 2 else "rust engine ") + ("fast" if i % 3 == 0 else "slow")}
        if i % 4:
            d["tag"] = ["t%d" % (i % 3)] + (["extra"] if i % 5 == 0 else [])
        if i % 3:
            d["n"] = i - 5
        if i % 2:
            d["x"] = [i * 0.5, i * 1.5] if i % 5 == 0 else i * 0.5
        if i % 3 != 1:
            d["c"] = [{"a": "u%d" % (i % 2), "m": i, "r": {"u": "z%d" % (i % 3)}}, {"a": "w", "m": -i}] if i % 2 else {"a": "solo", "m": i}
        docs.append(d)
    qs = ["rust", "engine fast", {"type": "bool", "must": [{"type": "term", "field": "body", "value": "rust"}], "must_not": [{"type": "term", "field": "body", "value": "slow"}]},
          {"type": "phrase", "field": "body", "terms": ["rust", "search"]}, {"type": "match_all"}]
    filters = [None, {"KeywordEq": {"field": "tag", "value": "t1"}}, {"I64Range": {"field": "n", "min": -2, "max": 6}},
               {"Nested": {"path": "c", "filter": {"And": [{"KeywordEq": {"field": "c.a", "value": "u1"}}, {"I64Range": {"field": "c.m", "min": 0, "max": 100}}]}}},
               {"Not": {"KeywordEq": {"field": "tag", "value": "extra"}}}]
    reqs = []
    for q in qs:
        for f in filters:
            r = dict(REQ_BASE, query=q, limit=100, return_stored=True, aggs={"t": {"type": "terms", "field": "tag", "size": 20}, "h": {"type": "histogram", "field": "n", "interval": 3.0}})
            if f:
                r["filter"] = f
            reqs.append(r)
    base = {"schema": None, "schema_add": add, "batches": [docs[:6], docs[6:11], docs[11:]], "deletes": [[], ["d02", "d07"], ["d12", "d03"]], "requests": reqs}
    o1, e1 = drive_search(base)
    o2, e2 = drive_search(dict(base, compact=True))
    if o1 is None or o2 is None:
        return dict(found=False, note='search driver failed: %s' % (e1 or e2))
    m = 0
    for r, a, b in zip(reqs, o1, o2):
        m += 1
        view = lambda o: (sorted((h['doc_id'], _json.dumps(h.get('fields'), sort_keys=True)) for h in o['ok']['hits']), _json.dumps(o['ok'].get('aggregations'), sort_keys=True)) if 'ok' in o else ('error', str(o)[:200])
        va, vb = view(a), view(b)
        if va != vb:
            return dict(found=True, cmd='%s search <<< hex(json) (once as committed, once with "compact": true)' % BIN,
                        input='16 documents in 3 segments, 4 deleted; query %s, filter %s, terms and histogram aggregations' % (_json.dumps(r['query']), _json.dumps(r.get('filter'))),
                        observed='after compaction: %s' % str(vb)[:400], expected='%s (the answer before compaction)' % str(va)[:400])
    return dict(found=False, note='compaction: %d histories with deletions at every position of a segment keep exactly the live documents; %d requests (queries x filters, with aggregations) answer the same before and after compaction' % (n, m))


def w_stored_nested(failure, tier):
    """what a search returns as the stored value of a nested field is the projection of what was indexed onto the stored
    properties: elements without any stored property drop out (the others stay), child objects are projected through their
    own definition, nulls and unstored properties disappear"""
    kw = lambda n, st: {"type": "keyword", "name": n, "stored": st, "indexed": True, "fast": True, "nullable": True}
    add = {"nested_fields": [{"name": "c", "nullable": True, "fields": [
        kw("a", True), kw("h", False),
        {"type": "object", "name": "r", "nullable": True, "fields": [kw("u", True), kw("v", False), kw("a", False)]}]}]}
    docs = [
        ({"_id": "p1", "body": "rust", "c": [{"a": "x", "h": "y"}, {"h": "hidden only"}, {"a": "z", "r": {"u": "1", "v": "2"}}]},
         [{"a": "x"}, {"a": "z", "r": {"u": "1"}}]),
        ({"_id": "p2", "body": "rust", "c": [{"h": "hidden only"}]}, None),
        ({"_id": "p3", "body": "rust", "c": {"a": "solo", "r": {"v": "unstored", "a": "child a is not stored"}}}, {"a": "solo"}),
        ({"_id": "p4", "body": "rust", "c": [{"a": None, "h": "q"}, {"a": "k", "r": None}]}, [{"a": "k"}]),
        ({"_id": "p5", "body": "rust", "c": [{"r": {"u": "deep"}}, {"r": {"v": "none stored"}}, {"a": "last"}]}, [{"r": {"u": "deep"}}, {"a": "last"}]),
    ]
    req = dict(REQ_BASE, query="rust", limit=20, return_stored=True)
    out, err = drive_search({"schema": None, "schema_add": add, "batches": [[d for (d, _w) in docs]], "requests": [req]})
    if out is None or 'ok' not in out[0]:
        return dict(found=False, note='search driver failed: %s' % (err or str(out)[:300]))
    got = dict((h['doc_id'], (h.get('fields') or {}).get('c')) for h in out[0]['ok']['hits'])
    n = 0
    for (d, want) in docs:
        n += 1
        if got.get(d['_id']) != want:
            return dict(found=True, cmd='%s search <<< hex(json)' % BIN,
                        input='nested field c (a stored, h not stored, child object r with u stored, v and a not stored); document %s' % _json.dumps(d),
                        observed='stored c = %s' % _json.dumps(got.get(d['_id'])), expected='stored c = %s' % _json.dumps(want))
    return dict(found=False, note='stored nested values: %d documents return exactly the stored projection of their nested field' % n)


def w_agg_layout(failure, tier):
    """bucket aggregations against the corpus, in one segment and spread over several: every bucket's doc_count is the number
    of matching documents carrying the key, one bucket per key, whatever the layout (terms with a nested terms sub-aggregation,
    histogram)"""
    docs = []
    for i in range(24):
        docs.append({"_id": "d%02d" % i, "body": "alpha" if i % 4 else "alpha beta", "tag": "t%d" % (i % 5), "kind": "k%d" % (i % 2), "n": i % 7})
    add = {"keyword_fields": [{"name": "tag", "stored": True, "indexed": True, "fast": True}, {"name": "kind", "stored": True, "indexed": True, "fast": True}],
           "numeric_fields": [{"name": "n", "i64": True, "fast": True, "stored": True}]}
    aggs = {"tags": {"type": "terms", "field": "tag", "size": 50, "aggs": {"kinds": {"type": "terms", "field": "kind", "size": 50}}},
            "hist": {"type": "histogram", "field": "n", "interval": 2.0},
            "hb": {"type": "histogram", "field": "n", "interval": 2.0, "min_doc_count": 0, "extended_bounds": {"min": 0.0, "max": 9.0},
                   "aggs": {"st": {"type": "value_count", "field": "n"}}}}
    docs = sorted(docs, key=lambda d: (d["n"], d["_id"]))      # segments hold different value ranges: buckets empty in one, filled in another
    layouts = [[docs], [docs[:8], docs[8:16], docs[16:]], [docs[i:i + 5] for i in range(0, 24, 5)], [docs[i:i + 1] for i in range(24)][:12] + [docs[12:]]]
    n = 0
    for q in ({"type": "match_all"}, "beta"):
        match = [d for d in docs if q != "beta" or "beta" in d["body"]]
        want_tags = {}
        want_sub = {}
        for d in match:
            want_tags[d["tag"]] = want_tags.get(d["tag"], 0) + 1
            want_sub[(d["tag"], d["kind"])] = want_sub.get((d["tag"], d["kind"]), 0) + 1
        want_hist = {}
        for d in match:
            k = float((d["n"] // 2) * 2)
            want_hist[k] = want_hist.get(k, 0) + 1
        for batches in layouts:
            r = dict(REQ_BASE, query=q, limit=1, aggs=aggs)
            out, err = drive_search({"schema": None, "schema_add": add, "batches": batches, "requests": [r]})
            if out is None or 'ok' not in out[0]:
                return dict(found=False, note='search driver failed: %s' % (err or str(out)[:300]))
            ag = out[0]['ok'].get('aggregations') or {}
            tb = (ag.get('tags') or {}).get('buckets', [])
            got_tags = [(b['key'], b['doc_count']) for b in tb]
            got_sub = {}
            for b in tb:
                for sb in ((b.get('aggregations') or b.get('aggs') or {}).get('kinds') or {}).get('buckets', []):
                    got_sub[(b['key'], sb['key'])] = got_sub.get((b['key'], sb['key']), 0) + sb['doc_count']
            got_hist = [(float(b['key']), b['doc_count']) for b in (ag.get('hist') or {}).get('buckets', []) if b['doc_count']]
            # every non-empty bucket of the bounded histogram carries its sub-aggregation, counting the bucket's documents
            bad_sub = []
            for b in (ag.get('hb') or {}).get('buckets', []):
                st = ((b.get('aggregations') or b.get('aggs') or {}).get('st') or {})
                cnt = st.get('value', st.get('count'))
                if b['doc_count'] and cnt != b['doc_count']:
                    bad_sub.append((float(b['key']), b['doc_count'], cnt))
            n += 1
            problems = []
            if sorted(got_tags) != sorted(want_tags.items()):
                problems.append('terms buckets %s, expected %s' % (sorted(got_tags), sorted(want_tags.items())))
            if got_sub != want_sub and got_sub:
                problems.append('nested terms buckets %s, expected %s' % (sorted(got_sub.items()), sorted(want_sub.items())))
            if sorted(got_hist) != sorted(want_hist.items()):
                problems.append('histogram buckets %s, expected %s' % (sorted(got_hist), sorted(want_hist.items())))
            if bad_sub:
                problems.append('bounded histogram buckets (key, doc_count, value_count of the sub-aggregation): %s' % bad_sub)
            if problems:
                return dict(found=True, cmd='%s search <<< hex(json)' % BIN,
                            input='24 documents in %d segment(s), query %s, terms on tag with nested terms on kind, histogram on n (interval 2), the same histogram with extended_bounds and a value_count sub-aggregation' % (len(batches), _json.dumps(q)),
                            observed='; '.join(problems), expected='the counts of the corpus, one bucket per key')
    return dict(found=False, note='bucket aggregations: %d (query, segment layout) combinations report the counts of the corpus' % n)


def w_pipeline_aggs(failure, tier):
    """every pipeline aggregation kind, at the top level of a request and inside every bucket aggregation that takes
    sub-aggregations: the search answers (a result or an error) - it never panics"""
    docs = [{"_id": "d%d" % i, "body": "alpha", "tag": "t%d" % (i % 2), "n": i} for i in range(6)]
    add = {"keyword_fields": [{"name": "tag", "stored": True, "indexed": True, "fast": True}],
           "numeric_fields": [{"name": "n", "i64": True, "fast": True, "stored": True}]}
    pipes = {
        "bucket_sort": {"type": "bucket_sort", "sort": [{"_count": "desc"}]},
        "avg_bucket": {"type": "avg_bucket", "buckets_path": "x>_count"},
        "sum_bucket": {"type": "sum_bucket", "buckets_path": "x>_count"},
        "derivative": {"type": "derivative", "buckets_path": "_count"},
        "moving_avg": {"type": "moving_avg", "buckets_path": "_count", "window": 2},
        "bucket_script": {"type": "bucket_script", "buckets_path": {"c": "_count"}, "script": "c * 2"},
    }
    parents = {
        "terms": lambda sub: {"type": "terms", "field": "tag", "size": 5, "aggs": sub},
        "histogram": lambda sub: {"type": "histogram", "field": "n", "interval": 2.0, "aggs": sub},
        "range": lambda sub: {"type": "range", "field": "n", "ranges": [{"to": 3.0}, {"from": 3.0}], "aggs": sub},
        "filter": lambda sub: {"type": "filter", "filter": {"KeywordEq": {"field": "tag", "value": "t0"}}, "aggs": sub},
    }
    reqs, meta = [], []
    for name, p in pipes.items():
        reqs.append(dict(REQ_BASE, query={"type": "match_all"}, limit=1, aggs={"p": p}))
        meta.append('%s at the top level' % name)
        for pn, mk in parents.items():
            reqs.append(dict(REQ_BASE, query={"type": "match_all"}, limit=1, aggs={"x": mk({"p": p})}))
            meta.append('%s inside %s' % (name, pn))
    out, err = drive_search({"schema": None, "schema_add": add, "batches": [docs[:3], docs[3:]], "requests": reqs})
    if out is None:
        return dict(found=False, note='search driver failed: %s' % err)
    for r, m, o in zip(reqs, meta, out):
        if 'panic' in o:
            return dict(found=True, cmd='%s search <<< hex(json)' % BIN, input='6 documents in 2 segments; match_all with aggregations %s (%s)' % (_json.dumps(r['aggs']), m),
                        observed='the search panicked: %s' % o['panic'], expected='a result or an error')
    return dict(found=False, note='pipeline aggregations: %d requests (six kinds x top level and four parents) are all answered without a panic' % len(reqs))


def w_composite(failure, tier):
    """composite aggregations against the corpus: the unpaged answer holds one bucket per (keyword value, histogram bucket)
    combination with the number of documents in it - for i64 and for f64 fields alike - and a walk that sends each
    after_key back returns every bucket exactly once, in the same order, after_key absent exactly on the last page"""
    import math
    docs = [{"_id": "d%02d" % i, "body": "alpha", "tag": "t%d" % (i % 3), "n": i - 5, "x": float(i) * 1.5 - 4.0} for i in range(14)]
    add = {"keyword_fields": [{"name": "tag", "stored": True, "indexed": True, "fast": True}],
           "numeric_fields": [{"name": "n", "i64": True, "fast": True, "stored": True}, {"name": "x", "i64": False, "fast": True, "stored": True}]}
    n = 0
    for (field, interval) in (("n", 3.0), ("x", 2.0)):
        for srcs_kind in ("both", "hist"):
            srcs = ([{"type": "terms", "name": "tag", "field": "tag"}] if srcs_kind == "both" else []) + [{"type": "histogram", "name": "h", "field": field, "interval": interval}]
            want = {}
            for d in docs:
                hb = math.floor(d[field] / interval) * interval
                k = ((d["tag"],) if srcs_kind == "both" else ()) + (hb,)
                want[k] = want.get(k, 0) + 1
            want_list = sorted(want.items())
            keyof = lambda b: ((b['key']['tag'],) if srcs_kind == "both" else ()) + (float(b['key']['h']),)
            for layout in ([docs], [docs[:5], docs[5:9], docs[9:]]):
                for size in (100, 3, 1):
                    got, after, pages = [], None, 0
                    while True:
                        agg = {"type": "composite", "size": size, "sources": srcs}
                        if after is not None:
                            agg["after"] = after
                        r = dict(REQ_BASE, query={"type": "match_all"}, limit=1, aggs={"c": agg})
                        out, err = drive_search({"schema": None, "schema_add": add, "batches": layout, "requests": [r]})
                        if out is None or 'ok' not in out[0]:
                            return dict(found=False, note='search driver failed: %s' % (err or str(out)[:300]))
                        c = (out[0]['ok'].get('aggregations') or {}).get('c') or {}
                        got.extend((keyof(b), b['doc_count']) for b in c.get('buckets', []))
                        after = c.get('after_key')
                        pages += 1
                        if after is None or pages > 40:
                            break
                    n += 1
                    if got != want_list:
                        return dict(found=True, cmd='%s search <<< hex(json) (one request per page)' % BIN,
                                    input='14 documents in %d segment(s); composite over %s, histogram on %s field %s interval %s, size %d, walking after_key' % (len(layout), 'tag and h' if srcs_kind == 'both' else 'h', 'the i64' if field == 'n' else 'the f64', field, interval, size),
                                    observed='%d page(s): %s' % (pages, got), expected='%s' % want_list)
    return dict(found=False, note='composite aggregations: %d (sources, field type, layout, page size) walks return every bucket of the corpus once, in order, with its count' % n)


def w_terms_layout(failure, tier):
    """terms aggregations with a bucket limit or a document-count threshold, in one segment and spread over several: the
    limit and the threshold apply to the MERGED counts, so the answer is the same for every layout"""
    skip = set((failure or {}).get('skip_cases') or [])
    add = {"keyword_fields": [{"name": "tag", "stored": True, "indexed": True, "fast": True}]}
    segs = [["a", "b", "b"], ["a", "c", "c"], ["a", "d", "d", "e"], ["e"]]
    layout, k = [], 0
    for seg in segs:
        b = []
        for t in seg:
            b.append({"_id": "d%d" % k, "body": "alpha", "tag": t})
            k += 1
        layout.append(b)
    alld = [d for b in layout for d in b]
    cases = [("terms-size-per-segment", {"type": "terms", "field": "tag", "size": 1}),
             ("terms-size-per-segment", {"type": "terms", "field": "tag", "size": 2}),
             ("terms-min-doc-count-per-segment", {"type": "terms", "field": "tag", "size": 10, "min_doc_count": 2}),
             ("terms-min-doc-count-per-segment", {"type": "terms", "field": "tag", "size": 10, "min_doc_count": 3})]
    add["numeric_fields"] = [{"name": "n", "i64": True, "fast": True, "stored": True}]
    for i, d in enumerate(alld):
        d["n"] = {"a": 1, "b": 5, "c": 9, "d": 13, "e": 17}[d["tag"]]
    cases += [("histogram-min-doc-count-per-segment", {"type": "histogram", "field": "n", "interval": 2.0, "min_doc_count": 2}),
              ("rare-terms-max-doc-count-per-segment", {"type": "rare_terms", "field": "tag", "max_doc_count": 2}),
              ("significant-terms-min-doc-count-per-segment", {"type": "significant_terms", "field": "tag", "min_doc_count": 2, "size": 10}),
              ("rare-terms-size-per-segment", {"type": "rare_terms", "field": "tag", "max_doc_count": 3, "size": 1}),
              ("rare-terms-size-per-segment", {"type": "rare_terms", "field": "tag", "max_doc_count": 3, "size": 2}),
              ("rare-terms-max-doc-count-per-segment", {"type": "rare_terms", "field": "tag", "max_doc_count": 1}),
              ("significant-terms-size-per-segment", {"type": "significant_terms", "field": "tag", "size": 1}),
              ("significant-terms-size-per-segment", {"type": "significant_terms", "field": "tag", "size": 2, "min_doc_count": 3})]
    n = 0
    for tag, agg in cases:
        if tag in skip:
            continue
        res = []
        for lay in ([alld], layout, [alld[:5], alld[5:]]):
            r = dict(REQ_BASE, query={"type": "match_all"}, limit=1, aggs={"t": agg})
            out, err = drive_search({"schema": None, "schema_add": add, "batches": lay, "requests": [r]})
            if out is None or 'ok' not in out[0]:
                return dict(found=False, note='search driver failed: %s' % (err or str(out)[:300]))
            res.append((len(lay), [(b['key'], b['doc_count']) for b in out[0]['ok']['aggregations']['t']['buckets']]))
            n += 1
        if any(r[1] != res[0][1] for r in res):
            return dict(found=True, cmd='%s search <<< hex(json)' % BIN, case=tag,
                        input='11 documents with tags a x3 (one per segment), b x2, c x2, d x2, e x2 (split over two segments), n = 1 / 5 / 9 / 13 / 17 by tag; %s' % _json.dumps(agg),
                        observed='; '.join('%d segment(s): %s' % r for r in res[1:]), expected='%s (the single-segment answer: counts of the corpus, limit and threshold applied to them)' % res[0][1])
    return dict(found=False, note='terms limits and thresholds: %d (aggregation, layout) combinations give the single-segment answer%s' % (n, '' if not skip else ' (cases of open known findings skipped: %s)' % sorted(skip)))


def w_nested_types(failure, tier):
    """a value of the wrong type is refused when the document is queued, inside a nested object exactly as at the top level:
    the same bad value is offered once in a top-level field and once in a nested property of the same kind"""
    kw = lambda n: {"type": "keyword", "name": n, "stored": True, "indexed": True, "fast": True, "nullable": True}
    tx = lambda n: {"type": "text", "name": n, "analyzer": "default", "stored": True, "indexed": True, "nullable": True}
    nm = lambda n, i: {"type": "numeric", "name": n, "i64": i, "fast": True, "stored": True, "nullable": True}
    add = {"numeric_fields": [{"name": "i", "i64": True, "fast": True, "stored": True, "nullable": True}, {"name": "f", "i64": False, "fast": True, "stored": True, "nullable": True}],
           "keyword_fields": [{"name": "k", "stored": True, "indexed": True, "fast": True, "nullable": True}],
           "nested_fields": [{"name": "c", "nullable": True, "fields": [kw("k"), tx("t"), nm("i", True), nm("f", False)]}]}
    bads = [("k", ["p", 3]), ("k", 7), ("k", [["p"]]), ("i", 2.5), ("i", [1, 2.5]), ("i", "x"), ("i", [1, "x"]), ("f", "1.5"), ("f", [1.0, "x"]), ("t", ["a", 5]), ("t", {"o": 1})]
    goods = [("k", ["p", "q"]), ("i", [1, 2]), ("f", [1, 2.5]), ("t", ["a", "b"]), ("k", None)]
    cases, meta = [], []
    for (prop, val) in bads + goods:
        top = {"_id": "top", "body": "x"}
        if prop == "t":
            top["body"] = val
        else:
            top[prop] = val
        cases.append({"schema_add": add, "ops": [["add", top], ["commit"]]})
        meta.append((prop, val, 'top'))
        cases.append({"schema_add": add, "ops": [["add", {"_id": "nst", "body": "x", "c": [{prop: val}]}], ["commit"]]})
        meta.append((prop, val, 'nested'))
    outs = drive('history', [_json.dumps(c).encode() for c in cases])
    n = 0
    for i in range(0, len(cases), 2):
        (prop, val, _a) = meta[i]
        res = []
        for r in outs[i:i + 2]:
            if not r.startswith('OK '):
                return dict(found=False, note='history driver failed: %s' % r[:300])
            log = _json.loads(r[3:]).get('log', [])
            res.append('refused' if any(l.startswith('add failed') for l in log) else ('commit failed' if log else 'accepted'))
        n += 1
        if res[0] != res[1]:
            return dict(found=True, cmd='%s history <<< hex(json)' % BIN,
                        input='the value %s in the %s field at the top level, and in the nested property c.%s of the same kind' % (_json.dumps(val), {'k': 'keyword', 'i': 'i64', 'f': 'f64', 't': 'text'}[prop], prop),
                        observed='top level: %s; nested: %s' % (res[0], res[1]), expected='the same answer from add_document')
    return dict(found=False, note='nested value types: %d values get the same answer from add_document at the top level and inside a nested object' % n)


def w_optional_clauses(failure, tier):
    """queries in which a document can match without containing any scored term (an optional should next to a filter or a
    must, a phrase or constant_score alternative): the hits are exactly the documents the boolean semantics accept"""
    skip = set((failure or {}).get('skip_cases') or [])
    if 'unscored-alternatives-lose-documents' in skip:
        return dict(found=False, note='optional clauses: the cases of this generator are an open known finding (skipped)')
    docs = [{"_id": "d1", "body": "rust engine", "lang": "en"}, {"_id": "d2", "body": "quick brown fox", "lang": "en"}, {"_id": "d3", "body": "rust moteur", "lang": "fr"}]
    add = {"keyword_fields": [{"name": "lang", "stored": True, "indexed": True, "fast": True}]}
    t = lambda v: {"type": "term", "field": "body", "value": v}
    en = {"KeywordEq": {"field": "lang", "value": "en"}}
    cases = [
        ({"type": "bool", "filter": [en], "should": [t("rust")]}, ["d1", "d2"]),
        ({"type": "bool", "must": [{"type": "match_all"}], "should": [t("rust")]}, ["d1", "d2", "d3"]),
        ({"type": "bool", "must": [{"type": "phrase", "field": "body", "terms": ["quick", "brown"]}], "should": [t("rust")]}, ["d2"]),
        ({"type": "dis_max", "queries": [t("rust"), {"type": "phrase", "field": "body", "terms": ["quick", "brown"]}]}, ["d1", "d2", "d3"]),
        ({"type": "bool", "should": [t("moteur"), {"type": "constant_score", "filter": en}]}, ["d1", "d2", "d3"]),
    ]
    n = 0
    for layout in ([docs], [docs[:1], docs[1:2], docs[2:]]):
        for ex in ("bm25", "wand"):
            reqs = [dict(REQ_BASE, query=q, limit=100, execution=ex) for (q, _w) in cases]
            out, err = drive_search({"schema": None, "schema_add": add, "batches": layout, "requests": reqs})
            if out is None:
                return dict(found=False, note='search driver failed: %s' % err)
            for (q, want), o in zip(cases, out):
                n += 1
                got = sorted(h['doc_id'] for h in o['ok']['hits']) if 'ok' in o else str(o)[:120]
                if got != want:
                    return dict(found=True, cmd='%s search <<< hex(json)' % BIN, case='unscored-alternatives-lose-documents',
                                input='d1 {rust engine, en}, d2 {quick brown fox, en}, d3 {rust moteur, fr} in %d segment(s); query %s, execution %s' % (len(layout), _json.dumps(q), ex),
                                observed='hits %s' % got, expected='%s' % want)
    return dict(found=False, note='optional clauses: %d (query, layout, strategy) combinations return exactly the matching documents' % n)


def w_bmw_blocks(failure, tier):
    """block-max pruning with small blocks: a term whose current block has a low bound and whose NEXT block holds the best
    document - bmw must return what the exhaustive executor returns"""
    skip = set((failure or {}).get('skip_cases') or [])
    if 'bmw-skips-better-block' in skip:
        return dict(found=False, note='bmw block skipping: the case of this generator is an open known finding (skipped)')
    docs = []
    for i in range(30):
        if i in (0, 1):
            body = "alpha beta f f f f"
        elif i in (2, 3, 5):
            body = "alpha f f f f f"
        elif i == 4:
            body = "alpha alpha alpha alpha alpha f"
        else:
            body = "beta beta f f f f"
        docs.append({"_id": "d%02d" % i, "body": body})
    n = 0
    for bs in (2, 3, 4):
        reqs = [dict(REQ_BASE, query="alpha beta", limit=1, execution=ex, bmw_block_size=bs) for ex in ("bm25", "wand", "bmw")]
        out, err = drive_search({"schema": None, "batches": [docs], "requests": reqs})
        if out is None or any('ok' not in o for o in out):
            return dict(found=False, note='search driver failed: %s' % (err or str(out)[:200]))
        res = [[(h['doc_id'], round(h['score'], 4)) for h in o['ok']['hits']] for o in out]
        n += 1
        if res[1] != res[0] or res[2] != res[0]:
            return dict(found=True, cmd='%s search <<< hex(json)' % BIN, case='bmw-skips-better-block',
                        input='30 six-token documents: d00 d01 "alpha beta ..", d02 d03 d05 "alpha ..", d04 "alpha" x5, d06.. "beta beta .."; query "alpha beta", limit 1, bmw_block_size %d' % bs,
                        observed='wand %s, bmw %s' % (res[1], res[2]), expected='%s (bm25)' % res[0])
    return dict(found=False, note='bmw block skipping: %d block sizes agree with bm25' % n)


def w_date_buckets(failure, tier):
    """date_histogram with a fixed interval: every document is counted in the bucket [key, key + interval) that contains its
    timestamp"""
    skip = set((failure or {}).get('skip_cases') or [])
    if 'date-histogram-fixed-rounds-up' in skip:
        return dict(found=False, note='fixed-interval date buckets: the case of this generator is an open known finding (skipped)')
    H = 3600 * 1000
    tss = [0, 12 * H, 24 * H - 1, 24 * H, 30 * H]
    docs = [{"_id": "t%d" % i, "body": "x", "ts": ts} for i, ts in enumerate(tss)]
    add = {"numeric_fields": [{"name": "ts", "i64": True, "fast": True, "stored": True}]}
    n = 0
    for (interval, step, offset, off_ms) in (("1d", 24 * H, None, 0), ("1d", 24 * H, "6h", 6 * H), ("12h", 12 * H, None, 0)):
        agg = {"type": "date_histogram", "field": "ts", "fixed_interval": interval}
        if offset:
            agg["offset"] = offset
        out, err = drive_search({"schema": None, "schema_add": add, "batches": [docs], "requests": [dict(REQ_BASE, query={"type": "match_all"}, limit=1, aggs={"h": agg})]})
        if out is None or 'ok' not in out[0]:
            return dict(found=False, note='search driver failed: %s' % (err or str(out)[:300]))
        got = [(int(b['key']), b['doc_count']) for b in out[0]['ok']['aggregations']['h']['buckets'] if b['doc_count']]
        want = {}
        for ts in tss:
            k = ((ts - off_ms) // step) * step + off_ms
            want[k] = want.get(k, 0) + 1
        n += 1
        if got != sorted(want.items()):
            return dict(found=True, cmd='%s search <<< hex(json)' % BIN, case='date-histogram-fixed-rounds-up',
                        input='timestamps 0, 12h, 24h-1ms, 24h, 30h (ms); date_histogram fixed_interval %s%s' % (interval, ', offset %s' % offset if offset else ''),
                        observed='buckets (key, count) %s' % got, expected='%s: each timestamp in the bucket [key, key + interval) that contains it' % sorted(want.items()))
    return dict(found=False, note='fixed-interval date buckets: %d settings put every timestamp into the bucket that contains it' % n)


def w_nested_compact(failure, tier):
    """nested filters before and after compaction: a nested array with an element that has no stored value (null property,
    empty object) - the objects keep their numbering, so a nested filter gives the same documents after compaction"""
    skip = set((failure or {}).get('skip_cases') or [])
    if 'nested-shape-after-compaction' in skip:
        return dict(found=False, note='nested filters across compaction: the case of this generator is an open known finding (skipped)')
    kw = lambda nme: {"type": "keyword", "name": nme, "stored": True, "indexed": True, "fast": True, "nullable": True}
    add = {"nested_fields": [{"name": "comment", "nullable": True, "fields": [kw("author")]}]}
    n = 0
    for hole in ({"author": None}, {}, None):
        docs = [{"_id": "d1", "body": "x", "comment": [{"author": "bob"}, hole]}, {"_id": "d2", "body": "x", "comment": [{"author": "bob"}]}]
        flt = {"Nested": {"path": "comment", "filter": {"Not": {"KeywordEq": {"field": "author", "value": "bob"}}}}}
        base = {"schema": None, "schema_add": add, "batches": [[docs[0]], [docs[1]]], "requests": [dict(REQ_BASE, query={"type": "match_all"}, limit=10, filter=flt)]}
        o1, e1 = drive_search(base)
        o2, e2 = drive_search(dict(base, compact=True))
        if o1 is None or o2 is None or 'ok' not in o1[0] or 'ok' not in o2[0]:
            return dict(found=False, note='search driver failed: %s' % (e1 or e2 or str(o1)[:200]))
        a = sorted(h['doc_id'] for h in o1[0]['ok']['hits'])
        b = sorted(h['doc_id'] for h in o2[0]['ok']['hits'])
        n += 1
        if a != b:
            return dict(found=True, cmd='%s search <<< hex(json) (once as committed, once with "compact": true)' % BIN, case='nested-shape-after-compaction',
                        input='d1 comment: [{"author": "bob"}, %s], d2 comment: [{"author": "bob"}], two segments; filter Nested{comment, Not(author = bob)}' % _json.dumps(hole),
                        observed='before compaction %s, after compaction %s' % (a, b), expected='the same documents')
    return dict(found=False, note='nested filters across compaction: %d cases give the same documents' % n)


GENERATORS = {
    ('U55', 'project_array_shape'): w_nested_compact,
    ('U53', 'skip_to_pivot'): w_bmw_blocks,
    ('U52', 'scan_or_terms'): w_optional_clauses,
    ('U52', 'empty_terms_answer'): w_optional_clauses,
    ('U40', 'nested_text_value'): w_nested_types,
    ('U40', 'nested_keyword_value'): w_nested_types,
    ('U40', 'nested_numeric_value'): w_nested_types,
    ('U49', 'terms_finish_cut'): w_terms_layout,
    ('U49', 'terms_finalize_cut'): w_terms_layout,
    ('U50', 'histogram_finish_keep'): w_terms_layout,
    ('U50', 'significant_finish_cut'): w_terms_layout,
    ('U50', 'rare_finish_cut'): w_terms_layout,
    ('U50', 'significant_merge_keep'): w_terms_layout,
    ('U50', 'rare_merge_keep'): w_terms_layout,
    ('U50', 'significant_finalize_cut'): w_terms_layout,
    ('U56', 'rare_finalize_cut'): w_terms_layout,
    ('U58', 'merge_range_bucket_lists'): w_range_layout,
    ('U59', 'upgrade_i64'): w_column_upgrade,
    ('U59', 'upgrade_f64'): w_column_upgrade,
    ('U59', 'upgrade_str'): w_column_upgrade,
    ('U59', 'str_list_push'): w_column_upgrade,
    ('U59', 'str_push'): w_column_upgrade,
    ('U68', 'histogram_fill'): w_hostile_aggs,
    ('U68', 'date_histogram_fill'): w_hostile_aggs,
    ('U68', 'moving_avg_predictions'): w_hostile_aggs,
    ('U54', 'fixed_bucket_start'): lambda failure, tier: (lambda r: r if r.get('found') else w_date_buckets(failure, tier))(w_hostile_aggs(failure, tier)),
    ('U69', 'agg_score_mode'): w_top_hits_sort,
    ('U67', 'generation_identifies_state'): w_stale_cursor,
    ('U67', 'cursor_generation'): w_stale_cursor,
    ('U36', 'bool_arm'): lambda failure, tier: (lambda r: r if r.get('found') else w_boost(failure, tier))(w_unmatched_clause(failure, tier)),
    ('U70', 'i64_leaf_arm'): w_dotted_leaf,
    ('U40', 'child_null'): w_child_null,
    ('U72', 'rescore_window'): w_rescore,
    ('U68', 'bucket_sort_buckets'): w_hostile_aggs,
    ('U71', 'fixed_arith'): w_hostile_aggs,
    ('U71', 'calendar_arith'): w_hostile_aggs,
    ('U65', 'writer'): w_two_writers,
    ('U66', 'queue_document'): w_oversize,
    ('U60', 'open_log'): w_history,
    ('U61', 'cursor_value_fields'): w_pagination,
    ('U61', 'cursor_state_fields'): w_pagination,
    ('U62', 'to_cursor_value'): w_pagination,
    ('U62', 'from_cursor_value'): w_pagination,
    ('U63', 'candidate_count'): lambda failure, tier: (lambda r: r if r.get('found') else w_collapse(failure, tier))(w_rescore(failure, tier)),
    ('U64', 'merged_ranking'): w_rescore,
    ('U6', 'make_snippet'): w_highlight,
    ('U57', 'range_merge_arm'): w_range_layout,
    ('U57', 'date_range_merge_arm'): w_range_layout,
    ('U48', 'composite_source_values'): w_composite,
    ('U7', 'composite_keep_after'): w_composite,
    ('U7', 'composite_page_cut'): w_composite,
    ('U46', 'for_segment_nodes'): w_pipeline_aggs,
    ('U46', 'from_request_pipeline_arm'): w_pipeline_aggs,
    ('U47', 'is_pipeline_aggregation'): w_pipeline_aggs,
    ('U47', 'split_pipeline_aggs'): w_pipeline_aggs,
    ('U45', 'merge_bucket_lists'): w_agg_layout,
    ('U45', 'merge_one_sub_agg'): w_agg_layout,
    ('U44', 'project_array'): w_stored_nested,
    ('U44', 'project_object'): w_stored_nested,
    ('U43', 'compact_docs'): w_compact,
    ('U41', 'bulk_ingest_section'): w_http_queue,
    ('U41', 'add_ndjson_section'): w_http_queue,
    ('U41', 'rollback'): w_http_queue,
    ('U42', 'checkpoint'): w_http_queue,
    ('U42', 'rollback_to'): w_http_queue,
    ('U42', 'wal_len'): w_http_queue,
    ('U42', 'wal_truncate_to'): w_http_queue,
    ('U42', 'wal_truncate'): w_http_queue,
    ('U40', 'validate_fields'): w_accept,
    ('U40', 'collect_fields'): w_accept,
    ('U40', 'validate_array'): w_accept,
    ('U40', 'validate_null'): w_accept,
    ('U39', 'prefix_candidates'): w_completion,
    ('U39', 'suggest_cut'): w_completion,
    ('U39', 'fuzzy_candidates'): w_completion,
    ('U38', 'load'): w_relocate,
    ('U38', 'segment_paths'): w_relocate,
    ('U38', 'cleanup_segments'): w_relocate,
    ('U38', 'open_files'): w_relocate,
    ('U37', 'collapse_group'): w_collapse,
    ('U37', 'collapse_pick'): w_collapse,
    ('U37', 'resort_hits'): w_collapse,
    ('U36', 'dismax_arm'): w_boost,
    ('U36', 'function_score_arm'): w_boost,
    ('U36', 'script_score_arm'): w_boost,
    ('U36', 'constant_score_arm'): w_boost,
    ('U36', 'rank_feature_arm'): w_boost,
    ('U36', 'term_arm'): w_boost,
    ('U36', 'prefix_arm'): w_boost,
    ('U36', 'wildcard_arm'): w_boost,
    ('U36', 'regex_arm'): w_boost,
    ('U36', 'query_string_arm'): w_boost,
    ('U36', 'multi_match_arm'): w_boost,
    ('U36', 'push_term_group'): w_boost,
    ('U21', 'rank_limit_choice'): w_explain_budget,
    ('U33', 'merge_capacity'): w_tophits,
    ('U33', 'finish_window'): w_tophits,
    ('U33', 'merge_window'): w_tophits,
    ('U31', 'matches_i64_range'): w_filters,
    ('U31', 'doc_range'): w_filters,
    ('U31', 'object_range'): w_filters,
    ('U30', 'number_array'): w_filters,
    ('U30', 'number_object'): w_filters,
    ('U29', 'filter_matches'): w_filters,
    ('U29', 'nested_filter_passes'): w_filters,
    ('U29', 'passes_filters_at'): w_filters,
    ('U29', 'nested_group_passes'): w_filters,
    ('U28', 'scan_segment_aggs'): w_agg_pages,
    ('U28', 'accept_streams_all'): w_agg_pages,
    ('U25', 'compact_generation'): w_history,
    ('U25', 'commit_generation'): w_history,
    ('U8', 'verify'): w_corrupt,
    ('U8', 'verify_all'): w_corrupt,
    ('U23', 'merge_term_weights'): w_repeat,
    ('U17', 'remove_rejected'): w_rescore,
    ('U17', 'window_resort'): w_rescore,
    ('U22', 'window_group'): w_rescore,
    ('U22', 'rescore_segment_docs'): w_rescore,
    ('U20', 'scan_segment_body'): w_scan,
    ('U20', 'accept_body'): w_scan,
    ('U21', 'scan_score_choice'): w_explain,
    ('U21', 'score_mode_choice'): lambda failure, tier: (lambda r: r if r.get('found') else w_top_hits_sort(failure, tier))(w_explain(failure, tier)),
    ('U19', 'evaluate'): w_script,
    ('U3', 'commit_fold'): w_history,
    ('U3', 'load_segment_ids'): w_history,
    ('U15', 'new_replay'): w_history,
    ('U15', 'delete_documents_loop'): w_history,
    ('U15', 'add_document_queue'): w_history,
    ('U2', 'last_pending_fold'): w_pending,
    ('U16', 'admission'): w_pruned,
    ('U16', 'push_top_k'): w_pruned,
    ('U51', 'ranked_execution'): w_pruned,
    ('U12', 'advance_to'): w_pruned,
    ('U12', 'new'): w_pruned,
    ('U12', 'score_candidate'): w_pruned,
    ('U12', 'score_current'): w_pruned,
    ('U12', 'block_upper_bound'): w_pruned,
    ('U12', 'skip_to_block'): w_pruned,
    ('U12', 'build_block_meta'): w_pruned,
    ('U13', 'function_values_and_base'): w_explain,
    ('U13', 'explain_fill'): w_explain,
    ('U13', 'has_custom_scoring'): w_explain,
    ('U13', 'rescore_update'): w_rescore,
    ('U14', 'fast_path_guard'): w_pagination,
    ('U7', 'page_cut'): w_pagination,
    ('U7', 'skip_search_segment'): w_pagination,
    ('U7', 'skip_scan_segment'): w_pagination,
    ('U14', 'compute_hash'): w_plan_hash,
    ('U6', 'frag_loop'): w_highlight,
    ('U9', 'decode_hex'): w_cursor,
    ('U9', 'hex_decode'): w_cursor,
    ('U11', 'search'): w_phrase,
    ('U10', 'matches_node'): w_bool,
    ('U2', 'replay_slice'): w_replay,
    ('U2', 'append_entry_buf'): w_append,
    ('U2', 'last_pending_fold'): w_pending,
    ('U1', 'read_u64'): w_read_u64,
    ('U1', 'write_u64'): w_write_u64,
    ('U1', 'write_u32_var'): w_write_u64,
}


def search(prop, failure, unit_res, tier):
    if unit_res.get('backend') == 'kani' and failure.get('kani'):
        from . import kani_run
        k = failure['kani']
        info = kani_run.playback(k['crate'], k['harness'], k['modfile'])
        if info.get('test') and info.get('native_failed'):
            return dict(found=True, cmd=info.get('native_cmd'), input='Kani counterexample (concrete playback test):\n' + info['test'],
                        observed='native run of the harness body on the real function with these values:\n' + (info.get('native') or '')[-1500:],
                        expected='every assertion of harness %s holds' % k['harness'])
        return dict(found=False, note='kani concrete playback: %s' % (info.get('note') or ('test generated but native run did not fail: ' + (info.get('native') or '')[-400:])))
    key = (unit_res['unit'], failure.get('function'))
    g = GENERATORS.get(key)
    if g is None:
        return None
    if not build_driver():
        return dict(found=False, note='native driver failed to build from /repo: ' + _built['log'][-600:])
    # inputs that an open known finding already names are not offered as the witness of a DIFFERENT violation
    from . import findings
    own = any(failure.get('obligation') in (e.get('sites') or {e.get('obligation'): None})
              for e in findings.load() if e.get('status') == 'open' and e.get('property') == prop)
    f2 = dict(failure)
    if not own:
        f2['skip_cases'] = findings.open_cases()
    return g(f2, tier)
