"""Rewrite rules applied to extracted repository text (DESIGN.md section 3.1).
Every application is logged (rule id, repo line, before, after).  Rules match
sub-expressions with balanced-bracket awareness, never whole lines, and never
change the number of lines (so the line map to /repo stays exact)."""
import re

from .rustlex import ExtractError, mask, match_close

HEADER_RULES = {'R1', 'RVP'}


def _line_rel(text, off):
    return text.count('\n', 0, off)


def regex_rewrite(text, rid, rx, repl, log):
    pat = re.compile(rx)
    out = []
    pos = 0
    for m in pat.finditer(text):
        new = m.expand(repl)
        keep_nl = m.group(0).count('\n') - new.count('\n')
        if keep_nl < 0:
            raise ExtractError('rewrite %s would add lines' % rid)
        new = new + '\n' * keep_nl
        log(_line_rel(text, m.start()), m.group(0), new)
        out.append(text[pos:m.start()])
        out.append(new)
        pos = m.end()
    out.append(text[pos:])
    return ''.join(out)


def _macro_calls(text, names):
    """yield (start, end_exclusive, name) of macro invocations name!( ... ) with balanced brackets"""
    m = mask(text)
    rx = re.compile(r'(?<![A-Za-z0-9_])((?:[A-Za-z_][A-Za-z0-9_]*::)*(?:%s))!\s*([\(\[\{])' % '|'.join(re.escape(n) for n in names))
    res = []
    for mm in rx.finditer(m):
        ob = mm.end() - 1
        cb = match_close(m, ob)
        res.append((mm.start(), cb + 1, mm.group(1)))
    return res


def _replace_spans(text, spans, log, keep_lines=True):
    """spans: list of (start,end,new) non-overlapping"""
    spans = sorted(spans)
    out = []
    pos = 0
    for (a, b, new) in spans:
        if a < pos:
            continue   # nested in a previous replacement
        old = text[a:b]
        if keep_lines:
            d = old.count('\n') - new.count('\n')
            if d < 0:
                raise ExtractError('rule would add lines')
            new = new + '\n' * d
        log(_line_rel(text, a), old, new)
        out.append(text[pos:a])
        out.append(new)
        pos = b
    out.append(text[pos:])
    return ''.join(out)


def _split_top(argtext):
    m = mask(argtext)
    parts, depth, start = [], 0, 0
    for i, ch in enumerate(m):
        if ch in '([{':
            depth += 1
        elif ch in ')]}':
            depth -= 1
        elif ch == ',' and depth == 0:
            parts.append(argtext[start:i])
            start = i + 1
    parts.append(argtext[start:])
    return [p.strip() for p in parts if p.strip()]


def _payload_args(argtext):
    """the expressions a format-style macro evaluates besides its format string (inline `{name}` captures are plain variables)"""
    parts = _split_top(argtext)
    if not parts:
        return []
    rest = parts[1:] if re.match(r'^(r#*)?"', parts[0]) else parts
    out = []
    for p in rest:
        mm = re.match(r'^[A-Za-z_][A-Za-z0-9_]*\s*=(?!=)\s*(.*)$', p, re.S)
        out.append(mm.group(1) if mm else p)
    # a bare variable / literal cannot panic when evaluated: not worth keeping
    return [e for e in out if not re.fullmatch(r'[A-Za-z_][A-Za-z0-9_]*|[0-9_]+', e)]


def rule_R1(text, args, log):
    """anyhow error plumbing: anyhow!(FMT, ARGS..) -> Error ; bail!(FMT, ARGS..) -> return Err(Error) ;
    .context(..)/.with_context(..) dropped.  Drops the error *message*, keeps Ok/Err-ness - and keeps the
    EVALUATION of the message arguments (`payload_eval(&(arg));`), because an argument such as `&raw[a..b]`
    can panic.  A lazily evaluated context closure with computed arguments is refused (exit 2)."""
    spans = []
    for (a, b, name) in _macro_calls(text, ['anyhow', 'bail']):
        base = name.split('::')[-1]
        ob = text.index('(', a) if '(' in text[a:b] else a
        inner = text[text.index('!', a) + 1:b].strip()[1:-1]
        evals = ''.join(' payload_eval(&(%s));' % ' '.join(e.split()) for e in _payload_args(inner))
        if base == 'anyhow':
            spans.append((a, b, ('{%s Error }' % evals) if evals else 'Error'))
        else:
            spans.append((a, b, ('{%s return Err(Error) }' % evals) if evals else 'return Err(Error)'))
    text = _replace_spans(text, spans, log)
    m = mask(text)
    spans = []
    for mm in re.finditer(r'\s*\.\s*(with_context|context)\s*\(', m):
        ob = mm.end() - 1
        cb = match_close(m, ob)
        inner = text[ob + 1:cb]
        fm = re.search(r'format!\s*\((.*)\)\s*$', inner.strip(), re.S)
        if fm and _payload_args(fm.group(1)):
            raise ExtractError('unsupported construct: error-context closure with computed arguments: %s' % ' '.join(inner.split())[:120])
        spans.append((mm.start(), cb + 1, ''))
    text = _replace_spans(text, spans, log)
    return text


def rule_R6(text, args, log):
    """logging statements removed"""
    spans = []
    m = mask(text)
    for (a, b, name) in _macro_calls(text, ['log::debug', 'log::info', 'log::warn', 'log::error', 'log::trace',
                                            'debug', 'info', 'warn', 'error', 'trace', 'eprintln', 'println']):
        e = b
        while e < len(m) and m[e] in ' \t':
            e += 1
        if e < len(m) and m[e] == ';':
            e += 1
        spans.append((a, e, ''))
    return _replace_spans(text, spans, log)


def rule_R7(text, args, log):
    """debug_assert!(C, MSG..) -> assert!(C); debug_assert_eq!(A, B, MSG..) -> assert!((A) == (B)); _ne likewise;
    assert!/assert_eq!/assert_ne! WITH a message lose the message.  The condition is kept as an obligation; the message
    (Verus does not support the formatting machinery) is dropped."""
    spans = []
    for (a, b, name) in _macro_calls(text, ['debug_assert', 'debug_assert_eq', 'debug_assert_ne', 'assert', 'assert_eq', 'assert_ne']):
        inner = text[text.index('!', a) + 1:b].strip()[1:-1]
        parts = _split_top(inner)
        base = name.split('::')[-1]
        if not base.startswith('debug_'):
            # a plain assertion: only its message (if any) is dropped
            if (base == 'assert' and len(parts) <= 1) or (base != 'assert' and len(parts) <= 2):
                continue
            base = 'debug_' + base
        if base == 'debug_assert' and parts:
            new = 'assert!(%s)' % ' '.join(parts[0].split())
        elif base in ('debug_assert_eq', 'debug_assert_ne') and len(parts) >= 2:
            new = 'assert!((%s) %s (%s))' % (' '.join(parts[0].split()), '==' if base.endswith('_eq') else '!=', ' '.join(parts[1].split()))
        else:
            raise ExtractError('unsupported construct: %s with %d arguments' % (name, len(parts)))
        spans.append((a, b, new))
    return _replace_spans(text, spans, log)


_FOR_RX = re.compile(r'(?<![A-Za-z0-9_\.])for\s+(?P<pat>[^{};]+?)\s+in\s+(?P<e>[^{};]+?)\s*\{')


def _desugar_for(text, log, by_value):
    """R2 / R2v / R12: `for PAT in E.iter()[.take(N)][.enumerate()|.copied()] {`  (also .iter_mut())
       => `let mut __kN: usize = 0; while __kN < E.len() { let PAT' = ..E[__kN]; __kN += 1;`
    The increment comes before the body so `continue` keeps its meaning.  Refused when the body
    mentions a mutation of E (push/insert/remove/clear/truncate on E)."""
    m = mask(text)
    spans = []
    n = 0
    for mm in _FOR_RX.finditer(m):
        pat = text[mm.start('pat'):mm.end('pat')].strip()
        e = text[mm.start('e'):mm.end('e')].strip()
        em = re.fullmatch(r'(?P<base>.+?)\.(?P<it>iter_mut|iter)\(\)(?P<take>\.take\(\s*[A-Za-z_][A-Za-z0-9_\.]*\s*\))?(?P<ad>(\.enumerate\(\)|\.copied\(\)|\.cloned\(\))*)', e, re.S)
        if not em:
            n += 1
            continue
        base = em.group('base').strip()
        ads = em.group('ad') or ''
        mut = em.group('it') == 'iter_mut'
        enum = '.enumerate()' in ads
        copied = '.copied()' in ads or '.cloned()' in ads
        if ads.count('.') > 2 or (enum and ads.index('.enumerate()') < max(ads.find('.copied()'), ads.find('.cloned()'))):
            raise ExtractError('unsupported construct: iterator adapter chain %s' % e)
        k = '__k%d' % n
        n += 1
        idxvar = None
        elt = pat
        if enum:
            pm = re.fullmatch(r'\(\s*([A-Za-z_][A-Za-z0-9_]*)\s*,\s*(.+?)\s*\)', pat, re.S)
            if not pm:
                raise ExtractError('unsupported construct: enumerate pattern %s' % pat)
            idxvar, elt = pm.group(1), pm.group(2)
        deref = False
        if elt.startswith('&'):
            elt = elt[1:].strip()
            deref = True
        if not re.fullmatch(r'(mut\s+)?[A-Za-z_][A-Za-z0-9_]*', elt):
            raise ExtractError('unsupported construct: loop pattern %s' % pat)
        # refuse when body mutates E
        ob = mm.end() - 1
        cb = match_close(m, ob)
        bodym = m[ob:cb]
        if not mut and re.search(re.escape(base) + r'\s*\.\s*(push|insert|remove|clear|truncate|pop|retain|sort|extend)\w*\s*\(', bodym):
            raise ExtractError('unsupported construct: loop body mutates %s' % base)
        if mut:
            bind = 'let %s = &mut %s[%s];' % (elt, base, k)
        elif deref or copied or by_value:
            bind = 'let %s = %s[%s];' % (elt, base, k)
        else:
            bind = 'let %s = &%s[%s];' % (elt, base, k)
        take = em.group('take')
        if take:
            # `.take(N)` directly after iter(): at most N elements (N a plain variable / field path, no side effects)
            lim = take[len('.take('):-1].strip()
            new = 'let mut %s: usize = 0; while %s < %s.len() && %s < %s { ' % (k, k, base, k, lim)
        else:
            new = 'let mut %s: usize = 0; while %s < %s.len() { ' % (k, k, base)
        if idxvar:
            new += 'let %s = %s; ' % (idxvar, k)
        new += bind + ' %s += 1;' % k
        spans.append((mm.start(), mm.end(), new))
    return _replace_spans(text, spans, log)


def rule_R2(text, args, log):
    return _desugar_for(text, log, by_value=False)


def rule_R2v(text, args, log):
    """as R2 but the element of a Copy scalar slice is bound by value (`let b = buf[k];` for `b: &u8`):
    equivalent for the arithmetic/comparison uses Rust auto-derefs"""
    return _desugar_for(text, log, by_value=True)


def _chain_calls(text, method):
    """find `BASE .iter() [.copied()] .<method>( |v| BODY )` occurrences (whitespace/newlines allowed between links).
    yields (start, end, base, var, body, copied)"""
    m = mask(text)
    rx = re.compile(r'(?P<base>[A-Za-z_][A-Za-z0-9_]*(?:\s*\.\s*[A-Za-z_][A-Za-z0-9_]*)*?)\s*\.\s*iter\(\)\s*(?P<cp>\.\s*copied\(\)\s*)?\.\s*' + method + r'\(')
    res = []
    for mm in rx.finditer(m):
        ob = mm.end() - 1
        cb = match_close(m, ob)
        inner = text[ob + 1:cb]
        cm = re.match(r'\s*\|\s*(&?\s*[A-Za-z_][A-Za-z0-9_]*)\s*\|\s*(.*)$', inner, re.S)
        fm = re.fullmatch(r'\s*([A-Za-z_][A-Za-z0-9_:]*)\s*', inner)
        if not cm and fm:
            # a function passed by name: `.any(f)` == `.any(|x| f(x))`
            cm = re.match(r'\s*\|\s*(&?\s*[A-Za-z_][A-Za-z0-9_]*)\s*\|\s*(.*)$', '|__x| %s(__x)' % fm.group(1), re.S)
        if not cm:
            raise ExtractError('unsupported construct: closure shape in .%s(..)' % method)
        body = cm.group(2).strip()
        if body.startswith('{') and body.endswith('}'):
            inner = body[1:-1].strip()
            if ';' in mask(inner):
                raise ExtractError('unsupported construct: block closure with statements in .%s(..)' % method)
            body = inner
        base = ''.join(text[mm.start('base'):mm.end('base')].split())
        res.append((mm.start(), cb + 1, base, cm.group(1).replace(' ', ''), body, bool(mm.group('cp'))))
    return res


_ctr = {'n': 0}


def rule_R10(text, args, log):
    """`E.iter()[.copied()].any(|v| P)` -> early-exit loop (same short-circuit order):
       { let mut __anyN = false; let mut __aN = 0; while __aN < E.len() && !__anyN { let v = &E[__aN]; __aN += 1; if P { __anyN = true; } } __anyN }"""
    spans = []
    for i, (a, b, base, var, body, copied) in enumerate(_chain_calls(text, 'any')):
        n = 'a%d' % i
        deref = var.startswith('&')
        v = var.lstrip('&')
        bind = 'let %s = %s[__%s];' % (v, base, n) if (copied or deref) else 'let %s = &%s[__%s];' % (v, base, n)
        new = '{ let mut __any%d = false; let mut __%s: usize = 0; while __%s < %s.len() && !__any%d { %s __%s += 1; if %s { __any%d = true; } } __any%d }' % (
            i, n, n, base, i, bind, n, ' '.join(body.split()), i, i)
        spans.append((a, b, new))
    return _replace_spans(text, spans, log)


def rule_R10all(text, args, log):
    """`E.iter()[.copied()].all(|v| P)` -> early-exit loop (same short-circuit order):
       { let mut __allN = true; let mut __bN = 0; while __bN < E.len() && __allN { let v = &E[__bN]; __bN += 1; if !(P) { __allN = false; } } __allN }"""
    spans = []
    for i, (a, b, base, var, body, copied) in enumerate(_chain_calls(text, 'all')):
        n = 'b%d' % i
        deref = var.startswith('&')
        v = var.lstrip('&')
        bind = 'let %s = %s[__%s];' % (v, base, n) if (copied or deref) else 'let %s = &%s[__%s];' % (v, base, n)
        new = '{ let mut __all%d = true; let mut __%s: usize = 0; while __%s < %s.len() && __all%d { %s __%s += 1; if !(%s) { __all%d = false; } } __all%d }' % (
            i, n, n, base, i, bind, n, ' '.join(body.split()), i, i)
        spans.append((a, b, new))
    return _replace_spans(text, spans, log)


def rule_R16(text, args, log):
    """`E.iter().copied().filter(|x| P).count()` -> counting loop; the closure parameter is a reference to the item, as in Iterator::filter"""
    m = mask(text)
    spans = []
    for i, (a, b, base, var, body, copied) in enumerate(_chain_calls(text, 'filter')):
        tail = re.match(r'\s*\.\s*count\(\)', m[b:])
        if not tail:
            raise ExtractError('unsupported construct: .filter(..) not followed by .count()')
        n = 'f%d' % i
        v = var.lstrip('&')
        if var.startswith('&'):
            bind = 'let %s = %s[__%s];' % (v, base, n)
        else:
            bind = 'let %s = &%s[__%s];' % (v, base, n)
        new = '{ let mut __cnt%d: usize = 0; let mut __%s: usize = 0; while __%s < %s.len() { %s __%s += 1; if %s { __cnt%d += 1; } } __cnt%d }' % (
            i, n, n, base, bind, n, ' '.join(body.split()), i, i)
        spans.append((a, b + tail.end(), new))
    return _replace_spans(text, spans, log)


def rule_R11(text, args, log):
    """`O.unwrap_or_else(|| BODY)` -> `match O { Some(__v) => __v, None => BODY }`  (args 'deref': `match *O`)"""
    m = mask(text)
    spans = []
    rx = re.compile(r'(?P<o>[A-Za-z_][A-Za-z0-9_]*(?:\.[A-Za-z_][A-Za-z0-9_]*)*)\s*\.\s*unwrap_or_else\(')
    for mm in rx.finditer(m):
        ob = mm.end() - 1
        cb = match_close(m, ob)
        inner = text[ob + 1:cb]
        cm = re.match(r'\s*\|\s*\|\s*(.*)$', inner, re.S)
        if not cm:
            raise ExtractError('unsupported construct: unwrap_or_else closure with parameters')
        o = text[mm.start('o'):mm.end('o')]
        if 'deref' in args:
            o = '*' + o
        new = 'match %s { Some(__v) => __v, None => %s }' % (o, cm.group(1).rstrip())
        spans.append((mm.start(), cb + 1, new))
    return _replace_spans(text, spans, log)


def rule_RVP(text, args, log):
    """strip visibility (`pub`, `pub(crate)`, ...) from the extracted item: inside the single-module Verus file everything is
    private to that module, which avoids Verus' public-contract-mentions-private-field restrictions; no semantics"""
    return regex_rewrite(text, 'RVP', r'(?<![A-Za-z0-9_])pub(\([a-z: ]+\))?\s+', '', log)


BUILTIN = {
    'R1': rule_R1,
    'R2': rule_R2,
    'R2v': rule_R2v,
    'R6': rule_R6,
    'R7': rule_R7,
    'R10': rule_R10,
    'R10all': rule_R10all,
    'R11': rule_R11,
    'R16': rule_R16,
    'RVP': rule_RVP,
}
