import os
import subprocess
from . import units

def run():
    os.makedirs(units.GEN, exist_ok=True)
    # first Verus run is slow (loads vstd): warm it
    p = os.path.join(units.GEN, 'warm.rs')
    with open(p, 'w') as f:
        f.write('use vstd::prelude::*;\nverus! { proof fn t() ensures 1 + 1 == 2int {} }\nfn main() {}\n')
    r = subprocess.run(['verus', 'warm.rs'], cwd=units.GEN, stdout=subprocess.PIPE, stderr=subprocess.STDOUT, text=True)
    print(r.stdout[-300:])
    return 0 if r.returncode == 0 else 1
