"""./check --setup : build / warm everything from files on disk, offline.
  - warm Verus (first run loads vstd)
  - compile the Kani harness crates once (searchlite-core, searchlite-ffi) so later checks only re-verify
  - build the native replay driver (used only when a violation is being replayed)"""
import concurrent.futures
import os
import subprocess

from . import kani_run, units, witness


def run():
    os.makedirs(units.GEN, exist_ok=True)
    p = os.path.join(units.GEN, 'warm.rs')
    with open(p, 'w') as f:
        f.write('use vstd::prelude::*;\nverus! { proof fn t() ensures 1 + 1 == 2int {} }\nfn main() {}\n')
    r = subprocess.run(['verus', 'warm.rs'], cwd=units.GEN, stdout=subprocess.PIPE, stderr=subprocess.STDOUT, text=True)
    print('verus warm-up:', r.stdout.strip()[-120:])
    rc = 0 if r.returncode == 0 else 1
    kani_run.prepare_gen()
    ok, cause, _, _ = kani_run.gen_ffi_slice()
    if not ok:
        print('ffi slice extraction:', cause)

    def kani(crate, prefix):
        out = kani_run.run_cargo_kani(crate, [prefix], 'quick', timeout=3000)
        tail = [l[:160] for l in out['out'].split('\n') if 'Complete' in l or l.startswith('error')][-3:]
        return crate, out['rc'], tail

    with concurrent.futures.ThreadPoolExecutor(max_workers=3) as ex:
        futs = [ex.submit(kani, 'searchlite-core', 'k9_selector_from_order'), ex.submit(kani, 'searchlite-ffi', 'k5_copy'), ex.submit(witness.build_driver)]
        for f in futs:
            r = f.result()
            if isinstance(r, tuple):
                print('kani warm-up %s: rc=%s %s' % r)
                if r[1] != 0:
                    rc = 1
            else:
                print('native replay driver build:', 'ok' if r else 'FAILED ' + witness._built['log'][-400:])
    return rc
