"""Sensitivity self-test (thorough tier): mutate the *extracted repository lines* of a unit's generated
Verus file with small semantic mutation operators and re-verify.  A mutant that still verifies is a
SURVIVOR: either the mutation is semantically neutral for the contract (e.g. it only changes the route,
not the result) or the contract is too weak there.  Survivors are reported in the evidence file
(coverage.sensitivity) for human review; they are never violations.  /repo is never touched."""
import os
import re
import concurrent.futures

from . import extract, verus_run
from .rustlex import mask

OPS = [
    (r'<=', '<'), (r'>=', '>'), (r'(?<![<>=!-])<(?![<=])', '<='), (r'(?<![<>=!-])>(?![>=])', '>='),
    (r'==', '!='), (r'!=', '=='), (r'&&', '||'), (r'\|\|', '&&'),
    (r'\+ 1\b', '+ 2'), (r'- 1\b', '- 0'), (r'\+= 1\b', '+= 2'),
    (r'\bsaturating_sub\b', 'wrapping_sub'),
    (r'\bmin\(', 'max('), (r'\bmax\(', 'min('),
    (r'(?<![A-Za-z0-9_])!(?=[A-Za-z_(])', ''),
    (r'\bis_empty\(\)', 'len() == 1'),
    (r'\breturn false\b', 'return true'), (r'\breturn true\b', 'return false'),
    (r'\bcontinue;', '{}'), (r'\bbreak;', '{}'),
]


def mutants_of(gen, limit):
    """yield (description, mutated_text) for single-site mutations on lines that come from /repo"""
    out = []
    for i, (line, org) in enumerate(zip(gen.lines, gen.origin)):
        if org[0] != 'repo':
            continue
        code = mask(line)
        # skip signature lines of extracted fns and pure declarations
        if re.match(r'\s*(pub\s+)?(unsafe\s+)?fn\s', code) or re.match(r'\s*(pub\s+)?(struct|enum|const|type)\s', code):
            continue
        for (rx, rep) in OPS:
            for m in re.finditer(rx, code):
                new = line[:m.start()] + rep + line[m.end():]
                if new == line:
                    continue
                lines = list(gen.lines)
                lines[i] = new
                out.append(('%s:%d  `%s` -> `%s`   | %s' % (org[1], org[2], m.group(0), rep, line.strip()[:90]), '\n'.join(lines) + '\n'))
    # statement-level operators on single-line statements that come from /repo: delete one, swap two neighbours,
    # stop propagating an error (`..)?;` -> `..);`) - the mutations that matter for ordering / protocol contracts
    def is_stmt(k):
        if gen.origin[k][0] != 'repo':
            return False
        c = mask(gen.lines[k]).strip()
        return bool(c) and c.endswith(';') and not c.startswith(('let ', 'return', 'use ', '//')) and c.count('(') == c.count(')') and c.count('{') == c.count('}')
    for i in range(len(gen.lines)):
        if not is_stmt(i):
            continue
        org = gen.origin[i]
        lines = list(gen.lines)
        lines[i] = ''
        out.append(('%s:%d  statement deleted   | %s' % (org[1], org[2], gen.lines[i].strip()[:90]), '\n'.join(lines) + '\n'))
        if mask(gen.lines[i]).rstrip().endswith(')?;'):
            lines = list(gen.lines)
            lines[i] = gen.lines[i].rstrip()[:-2] + ';'
            out.append(('%s:%d  `?` dropped   | %s' % (org[1], org[2], gen.lines[i].strip()[:90]), '\n'.join(lines) + '\n'))
        j = i + 1
        while j < len(gen.lines) and not gen.lines[j].strip():
            j += 1
        if j < len(gen.lines) and is_stmt(j):
            lines = list(gen.lines)
            lines[i], lines[j] = lines[j], lines[i]
            out.append(('%s:%d  swapped with the next statement   | %s' % (org[1], org[2], gen.lines[i].strip()[:90]), '\n'.join(lines) + '\n'))
    # deterministic thinning
    if len(out) > limit:
        step = len(out) / float(limit)
        out = [out[int(k * step)] for k in range(limit)]
    return out


def run_unit(uid, units_mod, limit=48, workers=6):
    tpl = units_mod.unit_template(uid)
    unit, gen, tfuncs = extract.expand(tpl)
    muts = mutants_of(gen, limit)
    d = os.path.join(units_mod.GEN, 'mut_' + uid)
    os.makedirs(d, exist_ok=True)
    res = dict(unit=uid, mutants=len(muts), killed=0, rejected=0, survivors=[])

    def one(k):
        desc, text = muts[k]
        p = os.path.join(d, 'm%03d.rs' % k)
        with open(p, 'w') as f:
            f.write(text)
        r = verus_run.run(p, multiple_errors=1, threads=2, timeout=300)
        s = verus_run.summarize(r)
        try:
            os.remove(p)
        except OSError:
            pass
        return k, s['state']

    with concurrent.futures.ThreadPoolExecutor(max_workers=workers) as ex:
        for k, st in ex.map(one, range(len(muts))):
            if st == 'failed':
                res['killed'] += 1
            elif st == 'undecided':
                res['rejected'] += 1      # no longer type-checks / unsupported: not a semantic survivor
            else:
                res['survivors'].append(muts[k][0])
    return res
