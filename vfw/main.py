import concurrent.futures
import difflib
import json
import os
import re
import subprocess
import sys
import time

from . import findings, props, units

VERIF = os.path.dirname(os.path.dirname(os.path.abspath(__file__)))
EVID = os.path.join(VERIF, 'evidence')
REPLAY = os.path.join(VERIF, 'replay')


def run_units(uids, kanis, tier, filters=None):
    from . import kani_run
    results = {}
    with concurrent.futures.ThreadPoolExecutor(max_workers=6) as ex:
        futs = {}
        for u in uids:
            futs[ex.submit(units.run_verus_unit, u, tier)] = u
        kres = None
        if kanis:
            kf = ex.submit(kani_run.run_kani_units, kanis, tier, filters)
        for f in concurrent.futures.as_completed(futs):
            results[futs[f]] = f.result()
        if kanis:
            for k, r in kf.result().items():
                results[k] = r
    return results


def safe(s):
    return re.sub(r'[^A-Za-z0-9_.#-]+', '_', s)


def write_replay(prop, fail, unit_res, witness):
    os.makedirs(REPLAY, exist_ok=True)
    path = os.path.join(REPLAY, '%s-%s.txt' % (prop, safe(fail['obligation'])))
    with open(path, 'w') as f:
        f.write('property: %s\n' % prop)
        f.write('failed obligation: %s\n' % fail['obligation'])
        f.write('kind: %s\n' % fail.get('kind'))
        f.write('function: %s\n' % fail.get('function'))
        f.write('repository location: %s\n' % fail.get('repo_loc'))
        f.write('source text at the failing site: %s\n' % fail.get('source_text'))
        if fail.get('clause'):
            f.write('contract clause: %s\n' % fail['clause'])
        f.write('back end: %s\n' % unit_res['backend'])
        f.write('checker command: %s\n' % unit_res.get('checker_cmd'))
        f.write('generated file: %s\n' % unit_res.get('gen_file'))
        f.write('\n---- verifier output ----\n%s\n' % (fail.get('rendered') or fail.get('message')))
        if witness and witness.get('found'):
            f.write('\n---- failing input replayed against the real code (built from /repo) ----\n')
            f.write('driver command: %s\n' % witness.get('cmd'))
            f.write('input: %s\n' % witness.get('input'))
            f.write('observed: %s\n' % witness.get('observed'))
            f.write('expected by the contract: %s\n' % witness.get('expected'))
        else:
            f.write('\n---- no failing input found ----\n')
            if witness:
                f.write('witness search: %s\n' % witness.get('note'))
            else:
                f.write('no witness generator exists for this obligation; the verifier gives no counterexample\n')
    return path


def check_property(prop, tier):
    t0 = time.time()
    cfg = props.PROPS.get(prop)
    if cfg is None:
        print('property %s is not claimed (see MANIFEST.json not_applicable)' % prop)
        return 2
    seed = int(os.environ.get('VERIF_SEED', '0') or 0)
    results = run_units(cfg['units'], cfg.get('kani', []), tier, cfg.get('kani_filter'))
    obligations = []
    violations = []
    known = []
    undecided = []
    for uid, r in results.items():
        obligations.extend(r['obligations'])
        if r['state'] == 'undecided':
            undecided.append((uid, r['cause']))
        for fl in r.get('failures', []):
            if not fl.get('obligation'):
                continue
            e = findings.match_open(prop, fl)
            if e:
                known.append((fl, e))
                continue
            violations.append((fl, r))
    vio_lines = []
    if violations:
        from . import witness as W
        seen = set()
        for (fl, r) in violations:
            if fl['obligation'] in seen:
                continue
            seen.add(fl['obligation'])
            w = None
            try:
                w = W.search(prop, fl, r, tier)
            except Exception as e:  # a broken witness generator must not hide the violation
                w = dict(found=False, note='witness generator error: %r' % e)
            path = write_replay(prop, fl, r, w)
            line = 'VIOLATION property=%s replay=%s' % (prop, path)
            if not (w and w.get('found')):
                line += ' obligation=%s no-failing-input-found' % fl['obligation']
            vio_lines.append(line)
    # thorough tier extras: sensitivity self-test of the contracts, native cross-check of the replay oracles
    sens = {}
    crosscheck = []
    if tier == 'thorough' and not violations:
        from . import sensitivity
        for uid, r in results.items():
            if r['backend'] == 'verus' and r['state'] == 'ok':
                try:
                    sens[uid] = sensitivity.run_unit(uid, units, limit=int(os.environ.get('VERIF_MUTANTS', '60')))
                except Exception as e:
                    sens[uid] = dict(unit=uid, error=repr(e))
        from . import witness as W
        if W.build_driver():
            for key, g in sorted(W.GENERATORS.items()):
                if key[0] in results:
                    try:
                        w = g(dict(skip_cases=findings.open_cases()), 'thorough')
                    except Exception as e:
                        w = dict(found=False, note='generator error %r' % e)
                    crosscheck.append(dict(unit=key[0], function=key[1], disagreement=bool(w.get('found')), detail=w.get('note') or w.get('input')))
                    if w.get('found'):
                        undecided.append((key[0], 'native cross-check: the replay oracle for %s disagrees with the real code on the unchanged contracts: %s / observed %s' % (key[1], w.get('input'), w.get('observed'))))
    n = len(obligations)
    nd = sum(1 for o in obligations if o['status'] == 'discharged')
    all_ok = (n > 0 and nd == n and not undecided and not violations)
    bounded = [o for o in obligations if o.get('strength') == 'bounded']
    level = cfg['level'] if all_ok else 'other'
    if level == 'proof' and bounded:
        level = 'other'   # a bounded stand-in is never counted as proved
    trusted = list(props.COMMON_TRUSTED)
    assumes = []
    for uid, r in results.items():
        for a in r.get('assumed', []):
            trusted.append('%s assumed contract: %s' % (uid, a))
        for a in r.get('assumes', []):
            assumes.append('%s: %s' % (uid, a))
    samples = []
    for o in obligations[:3] + [o for o in obligations if o['status'] != 'discharged'][:5]:
        samples.append({k: o[k] for k in ('id', 'function', 'kind', 'backend', 'status', 'text', 'repo_loc') if k in o})
    cov = dict(
        obligations=n, discharged=nd,
        checker_cmd='; '.join(sorted(set(r.get('checker_cmd', '') for r in results.values() if r.get('checker_cmd')))),
        trusted_base=trusted,
        explanation=('scope decided: %s. NOT decided: %s.' % (cfg['scope'], cfg['outside'])) +
                    (' Bounded (not proved) obligations: %s.' % ', '.join(o['id'] for o in bounded) if bounded else ''),
        samples=samples,
        functions_under_contract=[dict(unit=uid, **f) for uid, r in results.items() for f in r.get('functions', [])],
        obligation_records=[{k: o[k] for k in o if k not in ('gen_lines',)} for o in obligations],
        by_backend={},
        solver_time_s={uid: r.get('smt_s', r.get('solver_s', 0)) for uid, r in results.items()},
        unit_wall_s={uid: round(r.get('wall_s', 0), 2) for uid, r in results.items()},
        rewrite_log=[x for r in results.values() for x in r.get('rewrite_log', [])],
        canaries={uid: r.get('canary', {}) for uid, r in results.items()},
        bounds={uid: r.get('bounds') for uid, r in results.items() if r.get('bounds')},
        seed_retries={uid: dict(retries=r.get('seed_retries'), discharged_on_retry=r.get('discharged_on_retry', [])) for uid, r in results.items() if r.get('seed_retries')},
        undecided=[dict(unit=u, cause=c) for (u, c) in undecided],
        known_findings=[dict(obligation=fl['obligation'], what=e.get('what')) for (fl, e) in known],
        sensitivity=sens, native_crosscheck=crosscheck,
        strength={'proved': sum(1 for o in obligations if o['status'] == 'discharged' and o.get('strength', 'proved') == 'proved'),
                  'bounded': sum(1 for o in obligations if o['status'] == 'discharged' and o.get('strength') == 'bounded')},
    )
    for o in obligations:
        b = cov['by_backend'].setdefault(o['backend'], dict(obligations=0, discharged=0))
        b['obligations'] += 1
        b['discharged'] += 1 if o['status'] == 'discharged' else 0
    ev = dict(property_id=prop, tier=tier, seed=seed, level=level, coverage=cov, assumptions=assumes,
              wall_s=round(time.time() - t0, 2), violations=len(vio_lines))
    # VERIF_EVIDENCE_DIR: where to write the evidence file (default evidence/); seeded/run_all.py points it at a scratch
    # directory so that runs against deliberately broken trees never overwrite the committed evidence
    evdir = os.environ.get('VERIF_EVIDENCE_DIR') or EVID
    os.makedirs(evdir, exist_ok=True)
    with open(os.path.join(evdir, prop + '.json'), 'w') as f:
        json.dump(ev, f, indent=1)
    for uid, r in sorted(results.items()):
        print('[%s] %s %-4s %-9s obligations=%d discharged=%d wall=%.1fs %s' % (
            prop, r['backend'], uid, r['state'], len(r['obligations']),
            sum(1 for o in r['obligations'] if o['status'] == 'discharged'), r.get('wall_s', 0),
            ('cause: ' + r['cause']) if r.get('cause') else ''))
    for uid, sr in sorted(sens.items()):
        if 'error' in sr:
            print('[%s] sensitivity %s: error %s' % (prop, uid, sr['error']))
        else:
            print('[%s] sensitivity %s: %d mutants of the extracted text, %d killed, %d rejected by the front end, %d survivors' % (
                prop, uid, sr['mutants'], sr['killed'], sr['rejected'], len(sr['survivors'])))
    shown = set()
    for (fl, e) in known:
        if fl['obligation'] in shown:
            continue
        shown.add(fl['obligation'])
        print('KNOWN-FINDING: property=%s %s (%s at %s)' % (prop, e.get('what'), fl['obligation'], fl.get('repo_loc')))
    for l in vio_lines:
        print(l)
    if vio_lines:
        return 1
    for (u, c) in undecided:
        print('UNDECIDED property=%s unit=%s cause=%s' % (prop, u, c))
    if undecided:
        return 2
    print('[%s] OK: %d/%d obligations discharged (level=%s, tier=%s)' % (prop, nd, n, level, tier))
    return 0


def show_extraction(uid):
    from . import extract
    unit, gen, tfuncs = extract.expand(units.unit_template(uid))
    repo = extract.REPO
    for f in gen.functions:
        a, b = f['gen_range']
        genl = gen.lines[a - 1:b]
        with open(os.path.join(repo, f['repo_file'])) as fh:
            src = fh.read().split('\n')
        ra, rb = f['repo_lines']
        # include signature line(s) for whole functions
        srcl = src[ra - 2 if f['kind'] == 'fn' else ra - 1:rb + (1 if f['kind'] == 'fn' else 0)]
        print('=' * 78)
        print('%s  (%s)  %s:%d-%d' % (f['name'], f['kind'], f['repo_file'], ra, rb))
        for l in difflib.unified_diff(srcl, genl, 'repository', 'verified', lineterm='', n=2):
            print(l)
    print('=' * 78)
    print(json.dumps(gen.rewrite_log, indent=1))


def main(argv):
    if not argv:
        print(__doc__)
        return 2
    tier = os.environ.get('VERIF_TIER', 'quick')
    if '--tier' in argv:
        tier = argv[argv.index('--tier') + 1]
    if argv[0] == '--setup':
        from . import setup
        return setup.run()
    if argv[0] == '--witness-selftest':
        # every witness generator, run against the tree as it is: on a tree where the contracts hold none may report a failing input
        from . import witness as W
        if not W.build_driver():
            print('driver build failed', W._built['log'])
            return 2
        bad = 0
        # cases named by an open known finding are skipped here (they DO fail: that is the finding) and replayed separately below
        known_cases = [c for e in findings.load() if e.get('status') == 'open' for c in e.get('witness_cases', [])]
        for key, g in sorted(W.GENERATORS.items()):
            r = g(dict(skip_cases=known_cases), tier)
            print('%s.%s: %s' % (key[0], key[1], 'FOUND ' + str(r) if r.get('found') else 'none found (%s)' % r.get('note')))
            bad += 1 if r.get('found') else 0
        for e in findings.load():
            if e.get('status') == 'open' and e.get('witness_cases'):
                by_case = {'explain-field-only-sort': W.w_explain, 'aggs-after-cursor': W.w_agg_pages, 'histogram-min-doc-count-per-segment': W.w_terms_layout,
                           'unscored-alternatives-lose-documents': W.w_optional_clauses, 'bmw-skips-better-block': W.w_bmw_blocks,
                           'date-histogram-fixed-rounds-up': W.w_date_buckets, 'nested-shape-after-compaction': getattr(W, 'w_nested_compact', None), 'second-live-writer-handle': W.w_two_writers, 'oversize-document-blocks-commits': W.w_oversize, 'delete-only-commit-keeps-cursor': W.w_stale_cursor, 'unmatched-clause-adds-score': W.w_unmatched_clause, 'dotted-leaf-wrong-object': W.w_dotted_leaf}
                replay = next((by_case[c] for c in e['witness_cases'] if by_case.get(c)), None)
                r = replay({}, tier) if replay else dict(found=False, note='no replay generator')
                print('known finding %s %s: %s' % (e['property'], e['witness_cases'], 'still reproduces: ' + str(r.get('input')) + ' / ' + str(r.get('observed'))[:200] if r.get('found') else 'does NOT reproduce any more'))
        return 1 if bad else 0
    if argv[0] == '--unit':
        uid = argv[1]
        if '--show-extraction' in argv:
            show_extraction(uid)
            return 0
        if uid.startswith('K'):
            from . import kani_run
            r = kani_run.run_kani_units([uid], tier)[uid]
        else:
            r = units.run_verus_unit(uid, tier)
        print(json.dumps({k: r[k] for k in r if k not in ('obligations', 'rewrite_log', 'per_function_smt', 'functions')}, indent=1)[:6000])
        for o in r['obligations']:
            print('%-12s %-40s %s' % (o['status'], o['id'], o.get('text', '')[:90]))
        return 0 if r['state'] == 'ok' else (1 if r['state'] == 'failed' else 2)
    prop = argv[0]
    if '--replay' in argv:
        path = argv[argv.index('--replay') + 1]
        if os.path.exists(path):
            print(open(path).read())
        rc = check_property(prop, tier)
        return rc
    return check_property(prop, tier)
