"""Property -> units table (DESIGN.md section 6).  `level` is the evidence level when every
obligation is discharged; `scope` is what is decided; `outside` what is not."""

PROPS = {
    'C02': dict(units=['U1', 'U2'], kani=[], level='proof',
                scope='log codec: framing/parsing inverse, torn tail at any byte ignored, pending = suffix after last commit marker',
                outside='ordering of append/sync/truncate calls against the disk, multi-crash histories, IndexWriter::new wiring, CRC collisions'),
}

COMMON_TRUSTED = [
    'Verus 0.2026.09.13 (vir/air), bundled Z3, vstd specifications of Vec/slice/array/HashMap/BTreeMap/Option/Result/integers',
    'the extractor: verified text == repository text modulo the logged rewrites (see coverage.rewrite_log)',
    'rustc compiles the extracted text and the repository text the same way',
]
