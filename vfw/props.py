"""Property -> units table (DESIGN.md section 6).  `level` is the evidence level when every
obligation is discharged; `scope` is what is decided; `outside` what is not."""

PROPS = {
    'C02': dict(units=['U1', 'U2'], kani=[], level='proof',
                scope='log codec: framing/parsing inverse, torn tail at any byte ignored, pending = suffix after last commit marker',
                outside='ordering of append/sync/truncate calls against the disk, multi-crash histories, IndexWriter::new wiring, CRC collisions'),
    'C04': dict(units=['U3'], kani=[], level='proof',
                scope='the commit fold: new-segment contents == last add per id, untouched live copies kept, touched ids lose their old copy, exactly those old copies tombstoned; load_live_docs maps each id to its last live slot',
                outside='segment writer storing documents in pending_new order (BTreeMap keys()/values() order agreement assumed), tombstone merge into the manifest (HashSet/sort code), stored projection, reader-side deletion filtering, several writer handles / generation reload, rollback, compaction'),
    'C07': dict(units=['U10', 'U11'], kani=[], level='proof',
                scope='boolean evaluation: the whole recursive matches_node equals the documented bool/dis_max/query_string semantics (should optional beside must/filter unless minimum_should_match), for every query tree and every truth assignment of the leaves; phrase/slop position search == the slop-chain definition',
                outside='analysis, dictionary expansion (prefix/wildcard/regex/fuzzy), candidate generation, the planner translating the JSON tree into the matcher, filters (C08)'),
    'C16': dict(units=['U9', 'U1'], kani=[], level='other',
                scope='panic-freedom (and termination) of cursor decoding for ANY cursor string (PaginationCursor::decode hex loop and field unpacking, hex_decode) and of the varint decoder for any bytes',
                outside='search() as a whole: regex/wildcard compilation, scripts, aggregations, highlight (see C21), edit distance, prefix slicing, the leaf-index asserts in wand.rs',
                level_text='Partial: proves that the cursor-decoding functions and the varint decoder cannot panic on any input; says nothing about the rest of search().'),
    'C17': dict(units=['U1', 'U2', 'U5', 'U8'], kani=[], level='proof',
                scope='write-ahead log: recovery returns exactly the intact checksum-valid prefix for ANY byte content, a tail torn at any byte contributes nothing, never a panic or an error; segment files: terms-file header parsing cannot panic before the CRC comparison and a mismatch is an error; docstore length guard rejects oversized lengths before allocating; fast-field primitive readers are bounds-checked',
                outside='that CRC-32 detects a given alteration (assumed property of the polynomial), verify_checksums (closure over dyn Storage), post-checksum parsers (read_terms loop, read_fields), MANIFEST.json (carries no checksum)'),
    'C14': dict(units=['U4'], kani=[], level='other',
                scope='the refusal guard only: ensure_compact_safe returns Ok exactly when every resolved field with indexed or fast data is stored',
                outside='that re-ingesting stored JSON reproduces every posting, fast value and nested binding (end-to-end equivalence over serde_json); that compact() calls the guard before changing anything; Schema::resolved_fields itself',
                level_text='Partial: proves the refusal guard of compaction; the equivalence of contents before/after compaction is outside this technique.'),
    'C21': dict(units=['U6'], kani=[], level='proof',
                scope='the fragment window of highlight_fragments: every pushed fragment is a real (non-empty) slice of the text that contains the whole match and is at most fragment_size bytes, at most number_of_fragments fragments, for any text incl. multi-byte characters, relative to the assumed regex/str contracts',
                outside='regex construction, tag insertion by replace_all, materialize_hit / snippet assembly'),
    'C20': dict(units=['U13'], kani=[], level='other',
                scope='"every explanation\'s final score equals its hit\'s score": the explain fill loop of search() and the per-hit rescore update leave every hit with an explanation whose final_score is the hit score, without changing scores or keys',
                outside='the first sentence of the property (explain/profile flags change nothing) is relational over two executions of search() and is outside; materialize_hit copying score/explanation is read, not verified',
                level_text='Partial: proves explanation/score agreement on the two code sites that write explanations; the flag-independence of results is outside this technique.'),
    'C10': dict(units=[], kani=['K1', 'K7', 'K9'], level='other',
                scope='the comparator (missing last under both orders, directed total_cmp/Ord per part, lexicographic over 1-3 parts, ties by segment then document, Equal only for the same document), value selection min/max for multi-valued fields (lists <= 3, bounded), flat score combinators for finite inputs',
                outside='bm25 (ln), the score tree ScoreExpr::evaluate, per-segment statistics, that search() sorts with this comparator, keyword (String) parts',
                level_text='Partial: Kani proves the order and combinator contracts over all scalar inputs (loop-free harnesses); pick_numeric and key lengths are bounded as stated; BM25 itself is outside.',
                technique='contract-based verification with Kani: harnesses and in-place kani::ensures on the real comparators, full-domain symbolic scalars, unwinding assertions on'),
    'C26': dict(units=[], kani=['K5'], level='other',
                scope='the copy tail of searchlite_search and its null/zero-capacity guard: returns min(len, buf_cap-1), NUL at that index, prefix copied, nothing at or beyond buf_cap written - for every response length <= 32 and every capacity <= 34 (all byte values)',
                outside='response lengths beyond the bound (the code is loop-free: the bound only limits the symbolic array size), null guards of the other entry points, everything before the copy',
                level_text='Bounded in the response length N (32): a loop-free Kani harness over all byte values, capacities and lengths up to N on the mechanically extracted copy tail.',
                technique='contract-based verification with Kani: mechanically extracted slice of the unsafe copy compiled inside the real crate, canary-guarded buffer'),
    'C19': dict(units=['U13'], kani=['K7'], level='other',
                scope='the score update of a rescored hit: new score == combine_rescore_scores(mode, original, rescore score) (Verus, rescore_update slice) and combine_rescore_scores == the documented sum/multiply/max/min for finite inputs (Kani)',
                outside='window membership, min_score dropping, that hits after the window keep score and order (all in rescore_hits around the slice)',
                level_text='Partial and thin: decides only that window hits get the documented combined score.'),
}

KANI_TRUSTED = ['Kani 0.68 MIR-to-goto translation and CBMC 6.11 (bit-precise floats for + - * / total_cmp max min is_finite)']

COMMON_TRUSTED = [
    'Verus 0.2026.09.13 (vir/air), bundled Z3, vstd specifications of Vec/slice/array/HashMap/BTreeMap/Option/Result/integers',
    'the extractor: verified text == repository text modulo the logged rewrites (see coverage.rewrite_log)',
    'rustc compiles the extracted text and the repository text the same way',
]
