"""Property -> units table (DESIGN.md section 6).  `level` is the evidence level when every
obligation is discharged; `scope` is what is decided; `outside` what is not."""

PROPS = {
    'C02': dict(units=['U1', 'U2'], kani=[], level='proof',
                scope='log codec: framing/parsing inverse, torn tail at any byte ignored, pending = suffix after last commit marker',
                outside='ordering of append/sync/truncate calls against the disk, multi-crash histories, IndexWriter::new wiring, CRC collisions'),
    'C04': dict(units=['U3'], kani=[], level='proof',
                scope='the commit fold: new-segment contents == last add per id, untouched live copies kept, touched ids lose their old copy, exactly those old copies tombstoned; load_live_docs maps each id to its last live slot',
                outside='segment writer storing documents in pending_new order (BTreeMap keys()/values() order agreement assumed), tombstone merge into the manifest (HashSet/sort code), stored projection, reader-side deletion filtering, several writer handles / generation reload, rollback, compaction'),
    'C07': dict(units=['U10', 'U11'], kani=[], level='proof',
                scope='boolean evaluation: the whole recursive matches_node equals the documented bool/dis_max/query_string semantics (should optional beside must/filter unless minimum_should_match), for every query tree and every truth assignment of the leaves; phrase/slop position search == the slop-chain definition',
                outside='analysis, dictionary expansion (prefix/wildcard/regex/fuzzy), candidate generation, the planner translating the JSON tree into the matcher, filters (C08)'),
    'C16': dict(units=['U9', 'U1'], kani=[], level='other',
                scope='panic-freedom (and termination) of cursor decoding for ANY cursor string (PaginationCursor::decode hex loop and field unpacking, hex_decode) and of the varint decoder for any bytes',
                outside='search() as a whole: regex/wildcard compilation, scripts, aggregations, highlight (see C21), edit distance, prefix slicing, the leaf-index asserts in wand.rs',
                level_text='Partial: proves that the cursor-decoding functions and the varint decoder cannot panic on any input; says nothing about the rest of search().'),
}

COMMON_TRUSTED = [
    'Verus 0.2026.09.13 (vir/air), bundled Z3, vstd specifications of Vec/slice/array/HashMap/BTreeMap/Option/Result/integers',
    'the extractor: verified text == repository text modulo the logged rewrites (see coverage.rewrite_log)',
    'rustc compiles the extracted text and the repository text the same way',
]
