"""Minimal Rust lexical helpers: mask comments/strings, brace matching, item lookup.
Stdlib only.  Used by the extractor; never edits /repo."""
import re


class ExtractError(Exception):
    """lost anchor / unsupported shape -> the check exits 2 (undecided), never an alarm"""


def mask(text):
    """Return text of identical length where comments, string/char literal *contents*
    are replaced by spaces (newlines kept), so brace matching and regexes see code only."""
    out = list(text)
    i, n = 0, len(text)

    def blank(a, b):
        for k in range(a, b):
            if out[k] != '\n':
                out[k] = ' '

    while i < n:
        c = text[i]
        if text.startswith('//', i):
            j = text.find('\n', i)
            j = n if j < 0 else j
            blank(i, j)
            i = j
        elif text.startswith('/*', i):
            depth, j = 1, i + 2
            while j < n and depth:
                if text.startswith('/*', j):
                    depth += 1; j += 2
                elif text.startswith('*/', j):
                    depth -= 1; j += 2
                else:
                    j += 1
            blank(i, j)
            i = j
        elif c == 'r' and re.match(r'r#*"', text[i:i + 12]) and (i == 0 or not (text[i - 1].isalnum() or text[i - 1] == '_')):
            m = re.match(r'r(#*)"', text[i:])
            hashes = m.group(1)
            end = text.find('"' + hashes, i + len(m.group(0)))
            end = n if end < 0 else end + 1 + len(hashes)
            blank(i + len(m.group(0)), end - 1 - len(hashes))
            i = end
        elif c == '"' or (c == 'b' and i + 1 < n and text[i + 1] == '"' and (i == 0 or not (text[i - 1].isalnum() or text[i - 1] == '_'))):
            j = i + (2 if c == 'b' else 1)
            s = j
            while j < n and text[j] != '"':
                j += 2 if text[j] == '\\' else 1
            blank(s, min(j, n))
            i = j + 1
        elif c == "'":
            # char literal or lifetime
            m = re.match(r"'(\\x[0-9a-fA-F]{2}|\\u\{[0-9a-fA-F]+\}|\\.|[^\\'])'", text[i:i + 14])
            if m:
                blank(i + 1, i + len(m.group(0)) - 1)
                i += len(m.group(0))
            else:
                i += 1
        else:
            i += 1
    return ''.join(out)


OPEN = {'(': ')', '[': ']', '{': '}'}
CLOSE = {')': '(', ']': '[', '}': '{'}


def match_close(masked, i):
    """masked[i] is an opening bracket; return index of its matching close."""
    assert masked[i] in OPEN, masked[i:i + 10]
    depth = 0
    for j in range(i, len(masked)):
        ch = masked[j]
        if ch in OPEN:
            depth += 1
        elif ch in CLOSE:
            depth -= 1
            if depth == 0:
                return j
    raise ExtractError('unbalanced bracket at offset %d' % i)


def seg_regex(seg):
    """'impl Ord for SortKey' -> regex tolerant of whitespace; 'fn name' matches the fn keyword+name."""
    parts = seg.split()
    rx = r'\s+'.join(re.escape(p) for p in parts)
    # must not be followed by identifier char (so 'fn read_u64' does not match 'fn read_u64_x')
    return r'(?<![A-Za-z0-9_])' + rx + r'(?![A-Za-z0-9_])'


def line_of(text, off):
    return text.count('\n', 0, off) + 1


def line_start(text, off):
    k = text.rfind('\n', 0, off)
    return k + 1


class RustFile:
    def __init__(self, path):
        self.path = path
        with open(path, encoding='utf-8') as f:
            self.text = f.read()
        self.masked = mask(self.text)

    def find_item(self, item_path):
        """item_path: segments separated by '::' e.g. 'impl Wal :: fn replay'.
        Returns dict(start, sig_end(open brace offset or ';'), end(exclusive))."""
        lo, hi = 0, len(self.text)
        res = None
        for seg in [s.strip() for s in item_path.split(' :: ')]:
            rx = re.compile(seg_regex(seg))
            hits = [m for m in rx.finditer(self.masked, lo, hi)]
            # drop hits inside a nested deeper item of same range? keep all; require uniqueness
            if seg.startswith('impl ') or seg.startswith('impl<'):
                # 'impl X' must not match 'impl T for X' nor 'impl X<..> for' ; require next non-generic token is '{' or 'where'
                good = []
                for m in hits:
                    j = m.end()
                    rest = self.masked[j:j + 200]
                    mm = re.match(r'\s*(<[^{;]*?>)?\s*(\{|where\b)', rest)
                    if mm:
                        good.append(m)
                hits = good
            if len(hits) != 1:
                raise ExtractError('lost anchor: item segment %r matches %d times in %s' % (seg, len(hits), self.path))
            m = hits[0]
            start = m.start()
            # extend start backwards over visibility / qualifiers on the same line
            ls = line_start(self.masked, start)
            prefix = self.masked[ls:start]
            if re.fullmatch(r'\s*((pub(\([a-z:_ ]+\))?|const|unsafe|async|extern\s+"[^"]*"|extern)\s+)*', prefix):
                start = ls + (len(prefix) - len(prefix.lstrip()))
            # find body open brace or terminating ';' at bracket depth 0
            j = m.end()
            depth = 0
            sig_end = None
            while j < hi:
                ch = self.masked[j]
                if ch in '([':
                    depth += 1
                elif ch in ')]':
                    depth -= 1
                elif ch == '{' and depth == 0:
                    sig_end = j
                    break
                elif ch == ';' and depth == 0:
                    sig_end = j
                    break
                j += 1
            if sig_end is None:
                raise ExtractError('lost anchor: no body for %r' % seg)
            if self.masked[sig_end] == '{':
                end = match_close(self.masked, sig_end) + 1
                lo, hi = sig_end + 1, end - 1
            else:
                end = sig_end + 1
                lo, hi = end, end
            res = dict(start=start, sig_end=sig_end, end=end)
        return res

    def unique_line(self, rx, lo, hi, what):
        """offset of the start of the unique line within [lo,hi) whose masked text matches rx"""
        pat = re.compile(rx)
        hits = []
        pos = line_start(self.masked, lo)
        while pos < hi:
            nl = self.text.find('\n', pos)
            nl = len(self.text) if nl < 0 else nl
            # search on real text (anchors may mention string contents) but only code lines
            if pat.search(self.text[pos:nl]) and pos >= lo - 200:
                hits.append(pos)
            pos = nl + 1
        if len(hits) != 1:
            raise ExtractError('lost anchor: %s /%s/ matches %d lines in %s' % (what, rx, len(hits), self.path))
        return hits[0]

    def first_line_from(self, rx, lo, hi, what):
        """offset of the start of the first line at or after offset lo (and before hi) whose text matches rx"""
        pat = re.compile(rx)
        pos = line_start(self.masked, lo)
        while pos < hi:
            nl = self.text.find('\n', pos)
            nl = len(self.text) if nl < 0 else nl
            if pat.search(self.text[pos:nl]):
                return pos
            pos = nl + 1
        raise ExtractError('lost anchor: %s /%s/ matches 0 lines after the start anchor in %s' % (what, rx, self.path))

    def stmt_end(self, start, hi):
        """exclusive end offset of the statement starting at `start` (first non-space char)."""
        m = self.masked
        j = start
        while m[j] in ' \t':
            j += 1
        first = re.match(r'[A-Za-z_]+|\{', m[j:j + 12])
        blocklike = bool(first and first.group(0) in ('while', 'for', 'loop', 'if', 'match', 'unsafe', '{'))
        depth = 0
        k = j
        while k < hi:
            ch = m[k]
            if ch in OPEN:
                depth += 1
            elif ch in CLOSE:
                depth -= 1
                if depth < 0:
                    # a block's trailing result expression (no `;`): it ends where its block closes
                    if ch == '}' and m[j:k].strip():
                        e = k
                        while e > j and m[e - 1] in ' \t\n':
                            e -= 1
                        return e
                    raise ExtractError('statement runs past its block')
                if depth == 0 and ch == '}' and blocklike:
                    rest = m[k + 1:k + 40].lstrip()
                    if not rest.startswith('else'):
                        # allow trailing ';'
                        if rest.startswith(';'):
                            return m.index(';', k) + 1
                        return k + 1
            elif ch == ';' and depth == 0:
                return k + 1
            k += 1
        raise ExtractError('statement end not found')
