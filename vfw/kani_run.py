def run_kani_units(kids, tier):
    return {}
