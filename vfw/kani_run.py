"""Kani units: harness modules under /verif/kani compiled inside the real crates (cfg(kani) hooks).
One `cargo kani` run per crate per check; per-harness results become obligation records."""
import os
import re
import subprocess
import time

from . import extract
from .rustlex import ExtractError, mask

VERIF = os.path.dirname(os.path.dirname(os.path.abspath(__file__)))
CACHE = os.path.join(VERIF, '.cache')
GEN = os.path.join(CACHE, 'gen')
REPO = extract.REPO

# unit -> crate dir, harness name prefixes, per-harness strength notes
UNITS = {
    'K1': dict(crate='searchlite-core', prefixes=['k1_'], title='order contracts: compare_f32/f64/ord, SortKeyPart::cmp, SortKey::cmp (1-3 parts), RankedDoc::cmp, CompositeKeyPart/CompositeKey::cmp',
               files=['searchlite-core/src/query/sort.rs', 'searchlite-core/src/query/wand.rs', 'searchlite-core/src/query/aggs/mod.rs'],
               bounded={'k1_composite_key_cmp_len2': 'composite keys of exactly 2 numeric parts', 'k1_composite_key_cmp_transitive_len2': 'composite keys of exactly 2 numeric parts',
                        'k1_key_cmp_transitive_2': 'sort keys of exactly 2 parts'},
               assumes=['String: Ord is a total order (Str sort parts and Str composite parts are not executed under CBMC)',
                        'sort keys compared with each other have the same value kind (or Missing) per position - what one SortPlan produces']),
    'K7': dict(crate='searchlite-core', prefixes=['k7_'], title='flat score combinators: combine_rescore_scores, apply_boost_mode, combine_function_scores (max/min)',
               files=['searchlite-core/src/api/reader.rs', 'searchlite-core/src/query/score_functions.rs'],
               bounded={'k7_combine_function_scores_minmax_len_le_3': 'at most 3 function values, max/min modes only'},
               # k7_decay_norm_*: loop-free, all finite f64 inputs
               assumes=['inputs are finite floats (CBMC reports inf + -inf / 0 * inf as NaN-producing otherwise); +0.0 and -0.0 are not distinguished']),
    'K9': dict(crate='searchlite-core', prefixes=['k9_'], title='value selection for multi-valued sort fields: ValueSelector::from, pick_numeric',
               files=['searchlite-core/src/query/sort.rs'],
               bounded={'k9_pick_numeric_i64_len0': 'list length 0', 'k9_pick_numeric_i64_len1': 'list length 1', 'k9_pick_numeric_i64_len3': 'list length 3 (i64 values)',
                        'k9_keyword_pick_len_le_2': 'at most 2 values of at most 2 ASCII bytes each'},
               assumes=['the keyword arm of ResolvedSortField::value is cut out mechanically (kani/sort_slices.tpl); that str_values returns the field\'s values is not verified']),
    'K10': dict(crate='searchlite-core', prefixes=['k10_'], title='exact-mode percentile (query/aggs/mod.rs QuantileState::percentile): no out-of-bounds index for any requested percent',
               files=['searchlite-core/src/query/aggs/mod.rs'],
               bounded={'k10_percentile_exact_len0': 'no values', 'k10_percentile_exact_len1': 'one value', 'k10_percentile_exact_len2': 'two finite values (any percent bit pattern)', 'k10_percentile_exact_len2_extremes_any_order': 'two finite values in either order, percent 0 and 100'},
               assumes=['values are finite floats; the t-digest path (more than 256 values) is not harnessed']),
    'K11': dict(crate='searchlite-core', prefixes=['k11_'], title='cursor text layer: hex_encode / from_str_radix agree on every byte value; SortValue <-> CursorValue round trip',
               files=['searchlite-core/src/api/reader.rs'],
               bounded={},
               assumes=['String sort values (CursorValue::Str) are not executed under CBMC; that the encode/decode loops apply the per-byte step to every byte is U9 (Verus)']),
    'K5': dict(crate='searchlite-ffi', prefixes=['k5_'], title='tail of searchlite_search: output-buffer guard, bounded copy, NUL terminator',
               files=['searchlite-ffi/src/lib.rs'],
               bounded={'k5_copy_stays_in_buffer': 'response length <= N and buf_cap <= N+2 with N = 32 in the quick tier, N = 256 in the thorough tier (all byte values)'},
               assumes=['a null out_json_buf is rejected by an `is_null()` test that returns 0 before its first use (checked syntactically by the extractor side condition; the harness exercises non-null buffers of every capacity incl. 0)',
                        'the serialisation call is replaced by a parameter holding the response bytes',
                        'null-argument guards of the other FFI entry points are not harnessed (kani-compiler panics once a harness reaches the engine)']),
    'K6': dict(crate='searchlite-ffi', prefixes=['k6_'], title='pointer arguments of searchlite_search: null handle / query rejected before any dereference, null cursor never dereferenced, aggregation bytes read only through a non-null pointer and only aggs_len of them',
               files=['searchlite-ffi/src/lib.rs'],
               bounded={'k6_head_rejects_null_handle_and_query': 'query strings of at most 3 bytes + NUL', 'k6_cursor_null_is_none': 'cursor strings of at most 3 bytes + NUL',
                        'k6_aggs_reads_only_given_bytes': 'aggs_len <= 4 for a non-null pointer (any aggs_len for a null pointer)'},
               # k6_aggs_null_pointer_never_read: every aggs_len, loop-free on the unchanged code -> not bounded
               assumes=['CStr::from_ptr(p).to_string_lossy().to_string() is replaced by a loop that reads p up to its NUL (Kani does not support the strlen intrinsic behind CStr::from_ptr), String::from_utf8_lossy by a loop reading every byte of the slice, serde_json::from_str by a stub with either outcome: std and serde_json read only inside the slices they are given',
                        'the statements between these slices (query parsing, reader creation, request construction, the search itself) do not touch the raw pointers (read, not verified)']),
}


def prepare_gen():
    os.makedirs(GEN, exist_ok=True)
    if not all(os.path.exists(os.path.join(GEN, v[0])) for v in CORE_SLICES.values()):
        gen_core_slices()
    for name in ('sort', 'wand', 'aggs', 'reader', 'score_functions', 'ffi'):
        p = os.path.join(GEN, 'playback_%s.rs' % name)
        if not os.path.exists(p):
            open(p, 'w').write('// concrete playback tests are written here when a harness fails\n')


def gen_ffi_slice():
    """re-extract the FFI slices from /repo's working tree; returns (ok, cause, rewrite_log, functions)"""
    try:
        unit, gen, tf = extract.expand(os.path.join(VERIF, 'kani', 'ffi_copy.tpl'))
    except ExtractError as e:
        return False, 'extractor: %s' % e, [], []
    with open(os.path.join(GEN, 'ffi_copy.rs'), 'w') as f:
        f.write(gen.text())
    try:
        unit2, gen2, tf2 = extract.expand(os.path.join(VERIF, 'kani', 'ffi_inputs.tpl'))
    except ExtractError as e:
        return False, 'extractor: %s' % e, [], []
    with open(os.path.join(GEN, 'ffi_inputs.rs'), 'w') as f:
        f.write(gen2.text())
    gen.rewrite_log.extend(gen2.rewrite_log)
    # side conditions on the part of searchlite_search the harness does not see:
    #  (1) out_json_buf is not used before the extracted tail, except inside a null test that returns 0;
    #  (2) the tail itself or such an earlier test rejects a null out_json_buf before any use.
    from .rustlex import RustFile
    rf = RustFile(os.path.join(REPO, 'searchlite-ffi/src/lib.rs'))
    it = rf.find_item('fn searchlite_search')
    body = rf.masked[it['sig_end']:it['end']]
    tail_src = gen.text()
    first_line = gen.functions[0]['repo_lines'][0]          # first repository line of the extracted tail
    off = 0
    for _ in range(first_line - 1):
        off = rf.text.find('\n', off) + 1
    head = rf.masked[it['sig_end']:off]
    uses_head = [m.start() for m in re.finditer(r'(?<![A-Za-z0-9_])out_json_buf(?![A-Za-z0-9_])', head)]
    null_tested_head = False
    for u in uses_head:
        ctx = head[max(0, u - 120):u + 200]
        if re.match(r'out_json_buf\.is_null\(\)', head[u:u + 40]) and re.search(r'\{\s*return 0;\s*\}', ctx):
            null_tested_head = True
        else:
            return False, 'side condition failed: out_json_buf is used before the extracted tail outside a null test (%s)' % head[u:u + 60].strip(), gen.rewrite_log, gen.functions
    tm = mask(tail_src)
    mt = re.search(r'(?<![A-Za-z0-9_])out_json_buf(?![A-Za-z0-9_])', tm[tm.find('{'):])
    null_tested_tail = bool(mt and re.match(r'out_json_buf\.is_null\(\)', tm[tm.find('{') + mt.start():][:40]))
    if not (null_tested_head or null_tested_tail):
        return False, 'side condition undecided: no null test of out_json_buf precedes its first use (the harness only exercises non-null buffers)', gen.rewrite_log, gen.functions
    return True, None, gen.rewrite_log, gen.functions


CORE_SLICES = {
    # template -> (generated file, placeholder that keeps the crate compiling when an anchor is lost, units that need it)
    'sort_slices.tpl': ('sort_slices.rs', "pub fn keyword_pick<'a>(_values: &[&'a str], _selector: ValueSelector) -> Option<&'a str> { unreachable!() }\n", ['K9']),
    'score_slices.tpl': ('score_slices.rs', "pub fn decay_norm(_value: f64, _origin: &f64, _offset: &f64, _scale: &f64) -> f64 { unreachable!() }\n", ['K7']),
}


def gen_core_slices():
    """re-extract the statement slices the searchlite-core harnesses call (kani/*_slices.tpl); on a lost anchor a
    placeholder keeps the crate compiling and the units that need the slice are undecided.
    returns {unit: (ok, cause)}, rewrite_log"""
    state = {}
    rlog = []
    for tpl, (outname, placeholder, needs) in sorted(CORE_SLICES.items()):
        out = os.path.join(GEN, outname)
        try:
            unit, gen, tf = extract.expand(os.path.join(VERIF, 'kani', tpl))
            with open(out, 'w') as f:
                f.write(gen.text())
            rlog.extend(gen.rewrite_log)
        except ExtractError as e:
            with open(out, 'w') as f:
                f.write('// extraction failed: %s\n%s' % (str(e).replace('\n', ' '), placeholder))
            for k in needs:
                state[k] = 'extractor: %s' % e
    return state, rlog


def run_cargo_kani(crate, prefixes, tier, extra=None, timeout=None):
    # a harness that does not finish is undecided, never an alarm; the quick tier gives up earlier
    timeout = timeout or (1200 if tier != 'thorough' else 3600)
    target = os.path.join(CACHE, 'kani-target-' + crate)
    cmd = ['cargo', 'kani', '--target-dir', target, '-Z', 'function-contracts', '-j', '8', '--output-format', 'terse']
    for p in prefixes:
        cmd += ['--harness', p]
    if extra:
        cmd += extra
    env = dict(os.environ, CARGO_NET_OFFLINE='true')
    if tier == 'thorough':
        # larger symbolic buffers in the harnesses (cfg(verif_thorough)); separate target dir because the flags differ
        env['RUSTFLAGS'] = (env.get('RUSTFLAGS', '') + ' --cfg verif_thorough').strip()
        cmd[cmd.index('--target-dir') + 1] = target + '-thorough'
    t0 = time.time()
    try:
        p = subprocess.run(cmd, cwd=os.path.join(REPO, crate), env=env, stdout=subprocess.PIPE, stderr=subprocess.STDOUT, text=True, timeout=timeout)
        out, rc = p.stdout, p.returncode
    except subprocess.TimeoutExpired as e:
        out = (e.stdout or b'').decode(errors='replace') if isinstance(e.stdout, bytes) else (e.stdout or '')
        out += '\nTIMEOUT after %ds' % timeout
        rc = 124
    return dict(cmd='(cd %s && CARGO_NET_OFFLINE=true %s)' % (os.path.join(REPO, crate), ' '.join(cmd)), out=out, rc=rc, wall_s=time.time() - t0)


def parse_harness_results(out):
    """-> {harness_short_name: dict(status, checks, failed, failed_checks[], covers, time_s, full_name)}"""
    res = {}
    cur = {}        # thread -> harness
    lastthread = None
    single = None
    for line in out.split('\n'):
        m = re.match(r'(?:Thread (\d+): )?Checking harness ([A-Za-z0-9_:]+)\.\.\.', line)
        if m:
            th = m.group(1) or 's'
            full = m.group(2)
            short = full.split('::')[-1]
            res[short] = dict(status='unknown', checks=0, failed=0, failed_checks=[], covers=None, time_s=None, full_name=full)
            cur[th] = short
            lastthread = th
            continue
        m = re.match(r'Thread (\d+):\s*$', line)
        if m:
            lastthread = m.group(1)
            continue
        h = cur.get(lastthread) if lastthread is not None else None
        if h is None:
            continue
        m = re.search(r'\*\* (\d+) of (\d+) failed', line)
        if m:
            res[h]['failed'] = int(m.group(1))
            res[h]['checks'] = int(m.group(2))
            continue
        m = re.search(r'\*\* (\d+) of (\d+) cover properties satisfied', line)
        if m:
            res[h]['covers'] = (int(m.group(1)), int(m.group(2)))
            continue
        m = re.match(r'Failed Checks: (.*)', line)
        if m:
            res[h]['failed_checks'].append(m.group(1).strip())
            continue
        m = re.match(r'VERIFICATION:- (\w+)', line)
        if m:
            res[h]['status'] = m.group(1)
            continue
        m = re.match(r'Verification Time: ([0-9.]+)s', line)
        if m:
            res[h]['time_s'] = float(m.group(1))
    return res


def harness_source(name):
    """(file, line, text) of a harness in /verif/kani"""
    for fn in sorted(os.listdir(os.path.join(VERIF, 'kani'))):
        if not fn.endswith('_verif.rs'):
            continue
        p = os.path.join(VERIF, 'kani', fn)
        txt = open(p).read()
        m = re.search(r'fn ' + re.escape(name) + r'\s*\(', txt)
        if m:
            return p, txt.count('\n', 0, m.start()) + 1
    return None, None


def expected_harnesses(prefixes):
    names = []
    for fn in sorted(os.listdir(os.path.join(VERIF, 'kani'))):
        if not fn.endswith('_verif.rs'):
            continue
        txt = open(os.path.join(VERIF, 'kani', fn)).read()
        for m in re.finditer(r'#\[kani::proof(?:_for_contract\([A-Za-z0-9_:]+\))?\]\s*(?:#\[kani::[a-z_]+\([^)]*\)\]\s*)*fn ([A-Za-z0-9_]+)', txt):
            if any(m.group(1).startswith(p) for p in prefixes):
                names.append(m.group(1))
    return names


def playback(crate, harness, modfile):
    """re-run one failed harness with concrete playback, write the generated test into the playback include file and run it
    natively (cargo kani playback): the harness body calls the REAL function with the counterexample values."""
    target = os.path.join(CACHE, 'kani-target-' + crate)
    env = dict(os.environ, CARGO_NET_OFFLINE='true')
    cmd = ['cargo', 'kani', '--target-dir', target, '-Z', 'function-contracts', '-Z', 'concrete-playback', '--concrete-playback=print',
           '--output-format', 'terse', '--harness', harness]
    p = subprocess.run(cmd, cwd=os.path.join(REPO, crate), env=env, stdout=subprocess.PIPE, stderr=subprocess.STDOUT, text=True, timeout=1800)
    m = re.search(r'```\s*\n((?:(?!```).)*?#\[test\](?:(?!```).)*?)```', p.stdout, re.S)
    info = dict(print_cmd=' '.join(cmd), test=None, native=None)
    if not m:
        info['note'] = 'kani produced no concrete playback test'
        return info
    test = m.group(1)
    info['test'] = test
    pb = os.path.join(GEN, 'playback_%s.rs' % modfile)
    try:
        with open(pb, 'w') as f:
            f.write('// concrete playback of %s\n%s\n' % (harness, test))
        tname = re.search(r'fn (kani_concrete_playback_[A-Za-z0-9_]+)', test).group(1)
        cmd2 = ['cargo', 'kani', 'playback', '-Z', 'concrete-playback', '--', tname]
        env2 = dict(env, CARGO_TARGET_DIR=target + '-playback')
        p2 = subprocess.run(cmd2, cwd=os.path.join(REPO, crate), env=env2, stdout=subprocess.PIPE, stderr=subprocess.STDOUT, text=True, timeout=2400)
        info['native_cmd'] = ' '.join(cmd2)
        tail = p2.stdout[-3000:]
        info['native'] = tail
        info['native_failed'] = ('panicked' in p2.stdout) or ('FAILED' in p2.stdout)
    finally:
        with open(pb, 'w') as f:
            f.write('// concrete playback tests are written here when a harness fails\n')
    return info


MODFILE = {'sort_verif.rs': 'sort', 'wand_verif.rs': 'wand', 'aggs_verif.rs': 'aggs', 'reader_verif.rs': 'reader',
           'score_functions_verif.rs': 'score_functions', 'ffi_verif.rs': 'ffi'}


def run_kani_units(kids, tier, filters=None):
    """filters: optional {unit: [harness-name prefixes]} restricting which harnesses of a unit serve this property"""
    filters = filters or {}
    prepare_gen()
    results = {}
    by_crate = {}
    for k in kids:
        by_crate.setdefault(UNITS[k]['crate'], []).append(k)
    for crate, ks in by_crate.items():
        t0 = time.time()
        pre = {}
        if crate == 'searchlite-ffi':
            ok, cause, rlog, funcs = gen_ffi_slice()
            pre = dict(ok=ok, cause=cause, rewrite_log=rlog, functions=funcs)
        core_pre = None
        if crate == 'searchlite-core':
            lost, rlog = gen_core_slices()
            core_pre = dict(lost=lost, rewrite_log=rlog)
        prefixes = [p for k in ks for p in (filters.get(k) or UNITS[k]['prefixes'])]
        if pre and not pre['ok']:
            run = dict(cmd='', out='', rc=2, wall_s=0)
            parsed = {}
        else:
            run = run_cargo_kani(crate, prefixes, tier)
            parsed = parse_harness_results(run['out'])
        for k in ks:
            u = UNITS[k]
            res = dict(unit=k, backend='kani', state='ok', cause=None, functions=[], obligations=[], assumed=[], assumes=list(u['assumes']),
                       rewrite_log=pre.get('rewrite_log', []) if pre else [], canary={}, checker_cmd=run['cmd'], wall_s=run['wall_s'], solver_s=0.0,
                       title=u['title'], failures=[], bounds=dict(u['bounded']))
            for f in u['files']:
                res['functions'].append(dict(name=os.path.basename(f), kind='in-place (crate compiled by Kani with cfg(kani) harness module)', file=f, lines=None, item=None, sha256=None, contracted=True))
            if pre and not pre['ok']:
                res['state'] = 'undecided'
                res['cause'] = pre['cause']
                results[k] = res
                continue
            if core_pre and k in ('K9', 'K7'):
                res['rewrite_log'] = core_pre['rewrite_log']
                if k in core_pre['lost']:
                    res['state'] = 'undecided'
                    res['cause'] = core_pre['lost'][k]
                    results[k] = res
                    continue
            exp = expected_harnesses(filters.get(k) or u['prefixes'])
            if not exp:
                res['state'] = 'undecided'
                res['cause'] = 'vacuous: no harnesses found for %s' % k
            covers_ok = 0
            covers_all = 0
            for h in exp:
                r = parsed.get(h)
                src, line = harness_source(h)
                strength = 'bounded' if h in u['bounded'] else 'proved'
                o = dict(id='%s.%s' % (k, h), unit=k, function=h, kind='kani-harness', backend='kani', status='discharged', strength=strength,
                         text=(u['bounded'].get(h) and 'BOUNDED: ' + u['bounded'][h]) or 'all values of the symbolic inputs (loop-free / constant trip counts, unwinding assertions on)',
                         repo_loc='kani/%s:%s' % (os.path.basename(src) if src else '?', line))
                if r is None or r['status'] == 'unknown':
                    o['status'] = 'undecided'
                    res['state'] = 'undecided'
                    res['cause'] = 'harness %s did not run (compile error, timeout or OOM): %s' % (h, run['out'][-600:].replace('\n', ' | '))
                elif r['status'] == 'SUCCESSFUL':
                    o['checks'] = r['checks']
                    o['time_s'] = r['time_s']
                    res['solver_s'] += r['time_s'] or 0
                    if r['covers']:
                        covers_all += r['covers'][1]
                        covers_ok += r['covers'][0]
                        if r['covers'][0] != r['covers'][1]:
                            o['status'] = 'undecided'
                            res['state'] = 'undecided'
                            res['cause'] = 'vacuous: cover property of %s not satisfied' % h
                    if r['checks'] == 0:
                        o['status'] = 'undecided'
                        res['state'] = 'undecided'
                        res['cause'] = 'vacuous: harness %s generated zero checks' % h
                else:
                    # FAILED: unwinding failures / unsupported features are undecided, assertion failures are violations
                    fc = r['failed_checks']
                    und = [c for c in fc if re.search(r'unwinding assertion|not currently supported|unsupported|unreachable code', c)]
                    o['checks'] = r['checks']
                    if fc and len(und) == len(fc):
                        o['status'] = 'undecided'
                        res['state'] = 'undecided' if res['state'] == 'ok' else res['state']
                        res['cause'] = 'harness %s: %s' % (h, '; '.join(fc[:3]))
                    else:
                        o['status'] = 'failed'
                        res['state'] = 'failed'
                        res['failures'].append(dict(obligation=o['id'], function=h, kind='kani-harness', message='; '.join(fc[:6]) or 'VERIFICATION FAILED',
                                                    repo_loc=o['repo_loc'], source_text=h, clause=o['text'], rendered='Kani: harness %s FAILED\nfailed checks: %s\n' % (r['full_name'], '; '.join(fc)),
                                                    kani=dict(crate=crate, harness=h, modfile=MODFILE.get(os.path.basename(src or ''), None))))
                res['obligations'].append(o)
            res['canary'] = dict(targets=covers_all, failed_as_expected=covers_ok, note='kani::cover! statements: all must be satisfiable')
            res['n_obligations'] = len(res['obligations'])
            res['wall_s'] = time.time() - t0
            results[k] = res
    return results
