"""Unit template expander: cuts the real functions / slices out of /repo on every run,
applies the logged rewrite rules, splices contracts from the unit template and
produces one Verus file plus a line map and an obligation table.

Template syntax (units/*.vrs) -- plain Verus text plus directive lines:

  //@@ unit U1                     unit id
  //@@ title ...                   free text
  //@@ assume <text>               an assumption / trusted contract listed in every evidence file
  //@@ extract <label>             start of an extraction block
  //@ file <repo-relative path>
  //@ item <seg> :: <seg>          e.g.  impl Wal :: fn replay     |   fn matches_phrase :: fn search ; `A || B` = first that exists
  //@ raw                          copy the item verbatim (struct/enum/const), only `rewrite`s apply
  //@ slice /re-first/ .. /re-last/   statement slice (lines matched inside the fn body, each exactly once; `$` = end of body)
  //@ slice-after /re/ .. /re-last/   as slice, but starting after the statement that begins on the anchored line
  //@ from /re/                    with slice: anchors are looked for from the first line of the fn body that matches re
                                   (e.g. the pattern of a match arm), the slice start being the first match from there
  //@ arm /re/                     the match arm whose pattern line matches (arm body must be a block)
  //@ header <signature text>      replaces the repository signature (required for slice/arm)
  //@ ret <name>                   whole fn: name the return value  `-> T`  =>  `-> (name: T)`
  //@ tail <expr>                  appended as the slice's result expression
  //@ early-return                 the slice may contain `return`/`?`/bail!: its function returns Result, Err(..) = the real
                                   function returns early from inside the slice, the tail Ok(..) = it falls through
  //@ rule R2 | R2v | R6 | R7 | R10 | R11 | R12 | R16 ...   built-in structural rewrites (vfw/rules.py)
  //@ rewrite <Rid> /regex/ => replacement          declared sub-expression rewrite (logged per application)
  //@ contract                     following lines up to next //@ : requires/ensures text
  //@ loop <n>                     invariant/decreases text for the n-th loop (0-based, textual order)
  //@ loop-body-start <n> | loop-body-end <n> | body-start | body-end | before /re/ | after /re/
  //@@ end
"""
import hashlib
import os
import re

from . import rules as R
from .rustlex import ExtractError, RustFile, mask, match_close, line_of, line_start

REPO = os.environ.get('VERIF_REPO', '/repo')


def split_clauses(text):
    """split at top-level commas; returns list of (clause_text, start_off, end_off)"""
    m = mask(text)
    out = []
    depth = 0
    i = 0
    start = 0
    n = len(m)
    while i < n:
        ch = m[i]
        if ch in '([{':
            depth += 1
        elif ch in ')]}':
            depth -= 1
        elif ch == '|' and depth >= 0:
            # quantifier / closure binder: skip to closing '|'
            pre = m[max(0, i - 8):i]
            if re.search(r'(forall|exists|choose)\s*$', pre) or re.search(r'[(,=]\s*$', pre):
                j = m.find('|', i + 1)
                if j > 0:
                    i = j
        elif ch == ',' and depth == 0:
            out.append((text[start:i], start, i))
            start = i + 1
        i += 1
    if text[start:].strip():
        out.append((text[start:], start, len(text)))
    return [(c, a, b) for (c, a, b) in out if c.strip()]


SECTION_RX = re.compile(r'(?<![A-Za-z0-9_])(requires|ensures|invariant_except_break|invariant|decreases|recommends)(?![A-Za-z0-9_])')


def parse_sections(text):
    """contract / loop block text -> list of (section, clause_text, rel_line_start, rel_line_end)"""
    m = mask(text)
    marks = [(mm.start(), mm.end(), mm.group(1)) for mm in SECTION_RX.finditer(m)]
    # only keep section keywords at bracket depth 0
    keep = []
    for (a, b, k) in marks:
        pre = m[:a]
        depth = sum(pre.count(c) for c in '([{') - sum(pre.count(c) for c in ')]}')
        if depth == 0:
            keep.append((a, b, k))
    res = []
    for idx, (a, b, k) in enumerate(keep):
        end = keep[idx + 1][0] if idx + 1 < len(keep) else len(text)
        body = text[b:end]
        for (c, ca, cb) in split_clauses(body):
            lead = len(c) - len(c.lstrip())
            ls = text.count('\n', 0, b + ca + lead)
            le = text.count('\n', 0, b + ca + len(c.rstrip()))
            res.append((k, c.strip(), ls, le))
    return res


class Block:
    def __init__(self, label, tpl_line):
        self.label = label
        self.tpl_line = tpl_line
        self.file = None
        self.item = None
        self.raw = False
        self.slice = None
        self.arm = None
        self.block = None
        self.header = None
        self.ret = None
        self.tail = None
        self.steps = []      # ('rule', id, args) | ('rewrite', id, rx, repl)
        self.texts = []      # (kind, arg, text, tpl_line)
        self.contract_only = False
        self.attrs = []
        self.early_return = False
        self.declared_unreachable = False
        self.slice_after = False
        self.slice_from = None
        self.imported_from = None


def parse_template(path):
    unit = dict(id=None, title='', assumes=[], parts=[], path=path, serves=[])
    cur = None
    curtext = None
    with open(path, encoding='utf-8') as f:
        lines = f.read().split('\n')
    lines = preprocess(lines, path)
    plain = []

    def flush_plain():
        if plain:
            unit['parts'].append(('text', '\n'.join(plain), flush_plain.start))
            plain.clear()
    flush_plain.start = 1
    for ln, line in enumerate(lines, 1):
        s = line.strip()
        if s.startswith('//@@ '):
            toks = s[5:].split(None, 1)
            key = toks[0]
            arg = toks[1] if len(toks) > 1 else ''
            if key == 'unit':
                unit['id'] = arg.strip()
            elif key == 'title':
                unit['title'] = arg
            elif key == 'assume':
                unit['assumes'].append(arg)
            elif key == 'serves':
                unit['serves'] = arg.split()
            elif key == 'extract':
                flush_plain()
                cur = Block(arg.strip(), ln)
                curtext = None
            elif key in ('section', 'endsection'):
                pass
            elif key == 'import':
                flush_plain()
                u2, lab = arg.split()
                other = parse_template(os.path.join(os.path.dirname(path), u2 + '.vrs'))
                found = [p[1] for p in other['parts'] if p[0] == 'extract' and p[1].label == lab]
                if len(found) != 1:
                    raise ExtractError('template %s:%d import %s %s not found' % (path, ln, u2, lab))
                b = found[0]
                b.contract_only = True
                b.imported_from = u2
                unit['parts'].append(('extract', b, ln))
                unit.setdefault('imports', []).append('%s.%s' % (u2, lab))
                flush_plain.start = ln + 1
            elif key == 'end':
                unit['parts'].append(('extract', cur, ln))
                cur = None
                curtext = None
                flush_plain.start = ln + 1
            else:
                raise ExtractError('template %s:%d unknown directive %s' % (path, ln, key))
            continue
        if cur is None:
            if not plain:
                flush_plain.start = ln
            plain.append(line)
            continue
        if s.startswith('//@ '):
            toks = s[4:].split(None, 1)
            key = toks[0]
            arg = toks[1].strip() if len(toks) > 1 else ''
            curtext = None
            if key == 'file':
                cur.file = arg
            elif key == 'item':
                cur.item = arg
            elif key == 'raw':
                cur.raw = True
            elif key in ('slice', 'slice-after'):
                mm = re.fullmatch(r'/(.*)/ \.\. /(.*)/', arg)
                if not mm:
                    raise ExtractError('template %s:%d bad slice' % (path, ln))
                cur.slice = (mm.group(1), mm.group(2))
                cur.slice_after = (key == 'slice-after')
            elif key == 'from':
                mm = re.fullmatch(r'/(.*)/', arg)
                if not mm:
                    raise ExtractError('template %s:%d bad from' % (path, ln))
                cur.slice_from = mm.group(1)
            elif key == 'arm':
                mm = re.fullmatch(r'/(.*)/', arg)
                cur.arm = mm.group(1)
            elif key == 'block':
                mm = re.fullmatch(r'/(.*)/', arg)
                cur.block = mm.group(1)
            elif key == 'header':
                cur.header = arg
            elif key == 'ret':
                cur.ret = arg
            elif key == 'early-return':
                cur.early_return = True
            elif key == 'declared-unreachable':
                # the function is a piece of code that must never run (its contract is `requires false`): the obligation
                # lies with its callers, and the canary - which would rightly call such a body vacuous - skips it
                cur.declared_unreachable = True
            elif key == 'attr':
                cur.attrs.append(arg)
            elif key == 'tail':
                cur.tail = arg
            elif key == 'rule':
                t = arg.split(None, 1)
                cur.steps.append(('rule', t[0], t[1] if len(t) > 1 else ''))
            elif key == 'rewrite':
                mm = re.fullmatch(r'(\S+)\s+/(.*)/ =>(?: (.*))?', arg)
                if not mm:
                    raise ExtractError('template %s:%d bad rewrite' % (path, ln))
                cur.steps.append(('rewrite', mm.group(1), mm.group(2), mm.group(3) or ''))
            elif key in ('contract', 'body-start', 'body-end'):
                curtext = [key, None, [], ln]
                cur.texts.append(curtext)
            elif key in ('loop', 'loop-body-start', 'loop-body-end', 'loop?'):
                curtext = [key, int(arg), [], ln]
                cur.texts.append(curtext)
            elif key in ('before', 'after', 'before?', 'after?'):
                # `?` = optional proof hint: if its anchor line is gone the hint is skipped (and logged);
                # the verifier then decides without it
                mm = re.fullmatch(r'/(.*)/', arg)
                curtext = [key, mm.group(1), [], ln]
                cur.texts.append(curtext)
            else:
                raise ExtractError('template %s:%d unknown block directive %s' % (path, ln, key))
            continue
        if curtext is not None:
            curtext[2].append(line)
        elif s:
            raise ExtractError('template %s:%d text outside a text directive' % (path, ln))
    flush_plain()
    return unit


def preprocess(lines, path):
    """expand `//@@ include U section` (verbatim text of a section of another unit template) and
    `//@@ import-lemma U name` (the lemma's signature as an external_body proof fn: proved in U)"""
    out = []
    for line in lines:
        s = line.strip()
        if s.startswith('//@@ include '):
            u2, sec = s.split()[2:4]
            with open(os.path.join(os.path.dirname(path), u2 + '.vrs'), encoding='utf-8') as f:
                ol = f.read().split('\n')
            take = None
            got = []
            for l in ol:
                ls = l.strip()
                if ls == '//@@ section ' + sec:
                    take = True
                    continue
                if ls == '//@@ endsection' and take:
                    take = False
                    continue
                if take:
                    got.append(l)
            if take is None:
                raise ExtractError('template %s: include %s %s not found' % (path, u2, sec))
            out.append('// ---- included from units/%s.vrs section %s ----' % (u2, sec))
            out.extend(got)
        elif s.startswith('//@@ import-lemma '):
            u2, name = s.split()[2:4]
            with open(os.path.join(os.path.dirname(path), u2 + '.vrs'), encoding='utf-8') as f:
                ot = f.read()
            om = mask(ot)
            mm = re.search(r'(pub\s+)?proof\s+fn\s+' + re.escape(name) + r'(?![A-Za-z0-9_])', om)
            if not mm:
                raise ExtractError('template %s: import-lemma %s %s not found' % (path, u2, name))
            j = mm.end()
            depth = 0
            while j < len(om):
                ch = om[j]
                if ch in '([':
                    depth += 1
                elif ch in ')]':
                    depth -= 1
                elif ch == '{' and depth == 0:
                    break
                j += 1
            sig = ot[mm.start():j].rstrip()
            out.append('// IMPORTED-LEMMA %s.%s (proved in units/%s.vrs)' % (u2, name, u2))
            out.append('#[verifier::external_body]')
            for l in sig.split('\n'):
                out.append(l)
            out.append('{ }')
        else:
            out.append(line)
    return out


LOOP_RX = re.compile(r'(?<![A-Za-z0-9_\.])(while|for|loop)(?![A-Za-z0-9_])')


def find_loops(text):
    """returns list of (kw_off, open_brace_off, close_brace_off) in textual order (outer before inner)"""
    m = mask(text)
    res = []
    for mm in LOOP_RX.finditer(m):
        kw = mm.group(1)
        j = mm.end()
        if kw == 'for':
            # skip `for<'a>` bounds and `impl X for Y`
            pre = m[max(0, mm.start() - 60):mm.start()]
            if re.search(r'impl[^;{}]*$', pre):
                continue
        depth = 0
        ob = None
        while j < len(m):
            ch = m[j]
            if ch in '([':
                depth += 1
            elif ch in ')]':
                depth -= 1
            elif ch == '{' and depth == 0:
                ob = j
                break
            elif ch == ';' and depth == 0:
                break
            j += 1
        if ob is None:
            continue
        res.append((mm.start(), ob, match_close(m, ob)))
    return res


class Generated:
    def __init__(self):
        self.lines = []        # generated text lines
        self.origin = []       # per line: ('repo', file, line) | ('tpl', line) | ('gen',)
        self.functions = []    # dict(name, label, kind, repo_file, repo_lines, sha256, gen_range, obligations[])
        self.rewrite_log = []
        self.repo_files = set()
        self.skipped_hints = []

    def add(self, text, origin_fn):
        for k, l in enumerate(text.split('\n')):
            self.lines.append(l)
            self.origin.append(origin_fn(k))

    def text(self):
        return '\n'.join(self.lines) + '\n'


def expand_block(blk, gen, unit_id):
    if not blk.file or not blk.item:
        raise ExtractError('block %s: file/item missing' % blk.label)
    path = os.path.join(REPO, blk.file)
    if not os.path.exists(path):
        raise ExtractError('lost anchor: file %s missing' % blk.file)
    rf = RustFile(path)
    gen.repo_files.add(blk.file)
    # `A || B`: the first of the alternatives that exists (a function that was split or renamed by a repair: the contract
    # follows the code to its new place, and still finds it on a tree where the repair is reverted)
    it = None
    alts = [a.strip() for a in blk.item.split(' || ')]
    for k, alt in enumerate(alts):
        try:
            it = rf.find_item(alt)
            blk.item = alt
            break
        except ExtractError:
            if k == len(alts) - 1:
                raise
    item_text = rf.text[it['start']:it['end']]
    sha = hashlib.sha256(item_text.encode()).hexdigest()
    first_line = line_of(rf.text, it['start'])
    log = gen.rewrite_log

    def logger(rule, rel_line, before, after, base_line):
        log.append(dict(unit=unit_id, block=blk.label, rule=rule, file=blk.file,
                        line=base_line + rel_line, before=before.strip()[:200], after=after.strip()[:300]))

    if blk.raw:
        body = item_text
        base = first_line
        body = apply_steps(blk, body, base, logger)
        start_gen = len(gen.lines)
        for a_ in blk.attrs:
            gen.add(a_, lambda k: ('gen',))
        gen.add(body, lambda k: ('repo', blk.file, base + k))
        gen.functions.append(dict(name=blk.label, label=blk.label, kind='raw-item', repo_file=blk.file,
                                  repo_lines=[first_line, line_of(rf.text, it['end'] - 1)], sha256=sha,
                                  gen_range=[start_gen + 1, len(gen.lines)], obligations=[], contracted=False))
        return

    if rf.masked[it['sig_end']] != '{':
        raise ExtractError('block %s: item has no body' % blk.label)
    body_lo, body_hi = it['sig_end'] + 1, it['end'] - 1     # inside the braces
    sig_text = rf.text[it['start']:it['sig_end']].rstrip()
    kind = 'fn'
    if blk.slice:
        kind = 'statement-slice'
        if blk.slice_from:
            f0 = rf.first_line_from(blk.slice_from, body_lo, body_hi, 'slice from')
            a = rf.first_line_from(blk.slice[0], f0, body_hi, 'slice start')
        else:
            a = rf.unique_line(blk.slice[0], body_lo, body_hi, 'slice start')
        if blk.slice_after:
            # the slice begins on the line after the END of the statement that starts on the anchored line
            e0 = rf.stmt_end(a, body_hi)
            a = rf.text.find('\n', e0) + 1
        if blk.slice[1] == '$':
            # up to the end of the function body (includes a trailing result expression)
            nl = line_start(rf.text, body_hi) - 1
        else:
            # the end anchor is looked for from the start anchor on: the first statement after the start that matches it
            # (the same statement shape may occur again later in a long function, e.g. in the next match arm)
            b = rf.unique_line(blk.slice[1], body_lo, body_hi, 'slice end') if blk.slice[1] == blk.slice[0] else rf.first_line_from(blk.slice[1], a, body_hi, 'slice end')
            if b < a:
                raise ExtractError('lost anchor: slice end before start in %s' % blk.label)
            e = rf.stmt_end(b, body_hi)
            # slice must start at a statement boundary: take whole lines
            nl = rf.text.find('\n', e)
            if rf.masked[e:nl].strip():
                raise ExtractError('slice end shares a line with other code in %s' % blk.label)
        body = rf.text[a:nl]
        base = line_of(rf.text, a)
        if not blk.early_return:
            check_slice_shape(mask(body), blk.label)
    elif getattr(blk, 'block', None):
        # the contents of the `{ .. }` block that opens at the end of the anchored line (a closure body, an inner block)
        kind = 'inner-block-slice'
        a = rf.unique_line(blk.block, body_lo, body_hi, 'block')
        eol = rf.text.find('\n', a)
        j = rf.masked.rfind('{', a, eol)
        if j < 0 or rf.masked[j + 1:eol].strip():
            raise ExtractError('lost anchor: no block opens at the end of the anchored line in %s' % blk.label)
        close = match_close(rf.masked, j)
        endl = line_start(rf.text, close)
        if rf.masked[endl:close].strip():
            raise ExtractError('block shape unsupported in %s' % blk.label)
        body = rf.text[eol + 1:endl - 1]
        base = line_of(rf.text, eol + 1)
    elif blk.arm:
        kind = 'match-arm-slice'
        a = rf.unique_line(blk.arm, body_lo, body_hi, 'arm')
        arrow = rf.masked.find('=>', a)
        if arrow < 0:
            raise ExtractError('lost anchor: arm arrow')
        j = arrow + 2
        while rf.masked[j] in ' \t\n':
            j += 1
        if rf.masked[j] != '{':
            raise ExtractError('arm body is not a block in %s' % blk.label)
        close = match_close(rf.masked, j)
        # inner text, whole lines after the opening brace line
        nl = rf.text.find('\n', j)
        endl = line_start(rf.text, close)
        if rf.masked[j + 1:nl].strip() or rf.masked[endl:close].strip():
            raise ExtractError('arm block shape unsupported in %s' % blk.label)
        body = rf.text[nl + 1:endl - 1]
        base = line_of(rf.text, nl + 1)
    else:
        nl = rf.text.find('\n', it['sig_end'])
        endl = line_start(rf.text, body_hi)
        if rf.masked[it['sig_end'] + 1:nl].strip():
            # one-line or brace-sharing body: take raw inside braces
            body = rf.text[body_lo:body_hi]
            base = line_of(rf.text, body_lo)
        else:
            body = rf.text[nl + 1:max(nl + 1, endl - 1)]
            base = line_of(rf.text, nl + 1)
    # header
    if blk.header:
        header = blk.header
        if kind == 'fn':
            logger('HDR', 0, sig_text, header, first_line)
    else:
        if kind != 'fn':
            raise ExtractError('block %s: slice/arm needs a header' % blk.label)
        header = ' '.join(sig_text.split())
        h2 = apply_steps(blk, header, first_line, logger, header_only=True)
        header = h2
        if blk.ret:
            mm = re.search(r'->\s*(.+)$', header)
            if mm:
                header = header[:mm.start()] + '-> (' + blk.ret + ': ' + mm.group(1).strip() + ')'
    fname = re.search(r'fn\s+([A-Za-z0-9_]+)', header).group(1)
    if blk.contract_only:
        ctext = ''
        for (k, arg, tl, ln) in blk.texts:
            if k == 'contract':
                ctext = '\n'.join(tl)
        start_gen = len(gen.lines)
        gen.add('// IMPORTED-CONTRACT %s.%s (proved in units/%s.vrs)' % (blk.imported_from, fname, blk.imported_from), lambda k: ('gen',))
        gen.add('#[verifier::external_body]', lambda k: ('gen',))
        gen.add(header, lambda k: ('repo', blk.file, first_line))
        if ctext.strip():
            gen.add(ctext, lambda k: ('gen',))
        gen.add('{ unimplemented!() }', lambda k: ('gen',))
        gen.functions.append(dict(name=fname, label=blk.label, kind='imported-contract', repo_file=blk.file,
                                  repo_lines=[first_line, first_line], item=blk.item, sha256=sha,
                                  gen_range=[start_gen + 1, len(gen.lines)], obligations=[], contracted=False,
                                  imported_from=blk.imported_from))
        return
    body = apply_steps(blk, body, base, logger)
    # splice texts
    bm = mask(body)
    loops = find_loops(body)
    inserts = []   # (offset, order, text, tpl_line, tag)
    texts = {}
    for (k, arg, tl, ln) in blk.texts:
        texts.setdefault((k, arg), []).append(('\n'.join(tl), ln))
    obligations = []
    contract_text = ''
    contract_ln = None
    for (k, arg), lst in texts.items():
        for (t, ln) in lst:
            if k == 'contract':
                contract_text, contract_ln = t, ln
            elif k == 'loop?' and arg >= len(loops):
                gen.skipped_hints.append(dict(block=blk.label, anchor='loop %d' % arg, matches=0, tpl_line=ln))
            elif k in ('loop', 'loop?'):
                if arg >= len(loops):
                    raise ExtractError('lost anchor: loop %d not found in %s (have %d)' % (arg, blk.label, len(loops)))
                inserts.append((loops[arg][1], 0, '\n' + t + '\n', ln, ('loop', arg)))
            elif k == 'loop-body-start':
                if arg >= len(loops):
                    raise ExtractError('lost anchor: loop %d not found in %s' % (arg, blk.label))
                inserts.append((loops[arg][1] + 1, 1, '\n' + t + '\n', ln, None))
            elif k == 'loop-body-end':
                if arg >= len(loops):
                    raise ExtractError('lost anchor: loop %d not found in %s' % (arg, blk.label))
                inserts.append((loops[arg][2], 0, '\n' + t + '\n', ln, None))
            elif k in ('before', 'after', 'before?', 'after?'):
                opt = k.endswith('?')
                k = k.rstrip('?')
                pat = re.compile(arg)
                hits = []
                pos = 0
                for bl in body.split('\n'):
                    if pat.search(bl):
                        hits.append(pos)
                    pos += len(bl) + 1
                if len(hits) != 1:
                    if opt:
                        gen.skipped_hints.append(dict(block=blk.label, anchor=arg, matches=len(hits), tpl_line=ln))
                        continue
                    raise ExtractError('lost anchor: %s /%s/ matches %d lines in %s' % (k, arg, len(hits), blk.label))
                if k == 'before':
                    inserts.append((hits[0], 0, t + '\n', ln, None))
                else:
                    e = body.find('\n', hits[0])
                    e = len(body) if e < 0 else e
                    inserts.append((e, 2, '\n' + t, ln, None))
            elif k == 'body-start':
                inserts.append((0, -1, t + '\n', ln, None))
            elif k == 'body-end':
                # before a trailing result expression if the body ends in one, else at the very end
                blines = bm.rstrip().split('\n')
                last = blines[-1].rstrip()
                if last.endswith(';') or last.endswith('}'):
                    inserts.append((len(body), 3, '\n' + t, ln, None))
                else:
                    off = len('\n'.join(blines[:-1])) + (1 if len(blines) > 1 else 0)
                    inserts.append((off, 0, t + '\n', ln, None))
    # assemble
    start_gen = len(gen.lines)
    for a_ in blk.attrs:
        gen.add(a_, lambda k: ('gen',))
    gen.add(header, lambda k: ('repo', blk.file, first_line))
    contract_gen_line = len(gen.lines) + 1
    if contract_text.strip():
        gen.add(contract_text, lambda k: ('tpl', contract_ln + 1 + k))
    gen.add('{', lambda k: ('gen',))
    body_gen_start = len(gen.lines)
    # walk the body with inserts
    inserts.sort(key=lambda x: (x[0], x[1]))
    segs = []
    pos = 0
    for (off, order, t, ln, tag) in inserts:
        if off > pos:
            segs.append((body[pos:off], 'repo', pos))
            pos = off
        lead = 1 if t.startswith('\n') else 0
        segs.append((t, 'tpl', (ln, tag, lead)))
    if pos < len(body):
        segs.append((body[pos:], 'repo', pos))
    out_lines = ['']
    out_orig = [None]
    for (t, skind, info) in segs:
        parts = t.split('\n')
        for i, part in enumerate(parts):
            if i > 0:
                out_lines.append('')
                out_orig.append(None)
            if part.strip():
                if skind == 'repo':
                    o = ('repo', blk.file, base + body.count('\n', 0, info) + i)
                    if out_orig[-1] is None or out_orig[-1][0] != 'repo':
                        out_orig[-1] = o
                elif out_orig[-1] is None:
                    out_orig[-1] = ('tpl', info[0] + 1 + i - info[2], info[1])
            out_lines[-1] += part
    for l, o in zip(out_lines, out_orig):
        gen.lines.append(l)
        gen.origin.append(o if o else ('gen',))
    if blk.tail:
        gen.add('    ' + blk.tail, lambda k: ('gen',))
    gen.add('}', lambda k: ('gen',))
    end_gen = len(gen.lines)
    # obligations
    prefix = '%s.%s' % (unit_id, fname)
    cl = parse_sections(contract_text) if contract_text.strip() else []
    n_ens = 0
    has_req = False
    for (sec, c, ls, le) in cl:
        if sec == 'ensures':
            obligations.append(dict(id='%s.post#%d' % (prefix, n_ens), kind='postcondition', text=' '.join(c.split())[:240],
                                    gen_lines=[contract_gen_line + ls, contract_gen_line + le]))
            n_ens += 1
        elif sec == 'requires':
            has_req = True
    # loop clauses: locate them in generated text via tags
    for (k, arg), lst in texts.items():
        if k not in ('loop', 'loop?') or arg >= len(loops):
            continue
        for (t, ln) in lst:
            # find generated line where this block starts
            g0 = None
            for gi in range(body_gen_start, end_gen):
                o = gen.origin[gi]
                if o[0] == 'tpl' and len(o) > 2 and o[2] == ('loop', arg):
                    g0 = gi + 1
                    break
            secs = parse_sections(t)
            ni = 0
            for (sec, c, ls, le) in secs:
                # the inserted text starts with '\n' + t : first line of t is on g0
                if sec in ('invariant', 'invariant_except_break', 'ensures'):
                    obligations.append(dict(id='%s.loop%d.%s#%d' % (prefix, arg, 'inv' if sec != 'ensures' else 'ens', ni), kind='loop-' + sec,
                                            text=' '.join(c.split())[:240],
                                            gen_lines=[(g0 or 0) + ls - first_nonblank(t), (g0 or 0) + le - first_nonblank(t)]))
                    ni += 1
                elif sec == 'decreases':
                    obligations.append(dict(id='%s.loop%d.termination' % (prefix, arg), kind='termination', text='decreases ' + ' '.join(c.split())[:200],
                                            gen_lines=[(g0 or 0) + ls - first_nonblank(t), (g0 or 0) + le - first_nonblank(t)]))
    if any(sec == 'decreases' for (sec, c, ls, le) in cl):
        obligations.append(dict(id='%s.termination' % prefix, kind='termination', text='recursion decreases', gen_lines=[contract_gen_line, contract_gen_line]))
    obligations.append(dict(id='%s.safety' % prefix, kind='safety',
                            text='no arithmetic overflow, no out-of-bounds index/slice, no failing unwrap/assert, callee preconditions hold',
                            gen_lines=[body_gen_start + 1, end_gen]))
    gen.functions.append(dict(name=fname, label=blk.label, kind=kind, repo_file=blk.file,
                              repo_lines=[base, base + body.count('\n')], item=blk.item, sha256=sha,
                              gen_range=[start_gen + 1, end_gen], obligations=obligations, contracted=True,
                              has_requires=has_req, body_first_gen_line=body_gen_start + 1,
                              declared_unreachable=getattr(blk, 'declared_unreachable', False)))


def first_nonblank(t):
    k = 0
    for l in t.split('\n'):
        if l.strip():
            return k
        k += 1
    return 0


def check_slice_shape(masked_body, label):
    # a statement slice may not contain `return` or `?` (they would change meaning once cut out)
    if re.search(r'(?<![A-Za-z0-9_])return(?![A-Za-z0-9_])', masked_body):
        raise ExtractError('unsupported construct: `return` inside statement slice %s' % label)
    if re.search(r'\?\s*[;.)]', masked_body):
        raise ExtractError('unsupported construct: `?` inside statement slice %s' % label)


def apply_steps(blk, text, base_line, logger, header_only=False):
    nl0 = text.count('\n')
    for st in blk.steps:
        if st[0] == 'rewrite':
            _, rid, rx, repl = st
            text = R.regex_rewrite(text, rid, rx, repl, lambda rl, b, a: logger(rid, rl, b, a, base_line))
        else:
            _, rid, args = st
            if header_only and rid not in R.HEADER_RULES:
                continue
            fn = R.BUILTIN.get(rid)
            if fn is None:
                raise ExtractError('unknown rule %s' % rid)
            text = fn(text, args, lambda rl, b, a, rid=rid: logger(rid, rl, b, a, base_line))
        if text.count('\n') != nl0:
            raise ExtractError('rule %s changed the line count' % st[1])
    return text


TPL_FN_RX = re.compile(r'(?<![A-Za-z0-9_])(proof\s+fn|fn)\s+([A-Za-z0-9_]+)')


def expand(template_path):
    unit = parse_template(template_path)
    if not unit['id']:
        raise ExtractError('template without unit id')
    gen = Generated()
    tpl_fn_obls = []
    for part in unit['parts']:
        if part[0] == 'text':
            _, text, ln0 = part
            start = len(gen.lines)
            gen.add(text, lambda k, ln0=ln0: ('tpl', ln0 + k))
        else:
            expand_block(part[1], gen, unit['id'])
    text = gen.text()
    # template-side functions (lemmas, stubs): enumerate from the final text
    m = mask(text)
    extracted_ranges = [tuple(f['gen_range']) for f in gen.functions]
    tfuncs = []
    for mm in TPL_FN_RX.finditer(m):
        line = line_of(m, mm.start())
        if any(a <= line <= b for (a, b) in extracted_ranges):
            continue
        name = mm.group(2)
        # spec fns are definitions, not obligations (termination of recursive spec fns is checked by Verus too)
        ls = line_start(m, mm.start())
        pre = m[ls:mm.start()]
        is_spec = bool(re.search(r'(?<![A-Za-z0-9_])spec(\([a-z]+\))?\s+$', pre)) or 'spec fn' in m[ls:mm.end()]
        # find body
        j = mm.end()
        depth = 0
        ob = None
        while j < len(m):
            ch = m[j]
            if ch in '([':
                depth += 1
            elif ch in ')]':
                depth -= 1
            elif ch == '{' and depth == 0:
                ob = j
                break
            elif ch == ';' and depth == 0:
                break
            j += 1
        if ob is None:
            continue
        cb = match_close(m, ob)
        # attributes on preceding lines
        k = ls
        attrs = ''
        while True:
            pk = m.rfind('\n', 0, k - 1)
            prev = text[pk + 1:k - 1] if k > 0 else ''
            if prev.strip().startswith('#['):
                attrs += prev
                k = pk + 1
                if pk < 0:
                    break
            else:
                break
        body = text[ob:cb + 1]
        sigtxt = text[mm.start():ob]
        prevtxt = text[max(0, k - 200):k]
        imported = bool(re.search(r'// IMPORTED-(LEMMA|CONTRACT) (\S+)[^\n]*\n\s*$', prevtxt))
        imp_name = re.search(r'// IMPORTED-(LEMMA|CONTRACT) (\S+)[^\n]*\n\s*$', prevtxt).group(2) if imported else None
        assumed = 'external_body' in attrs or re.search(r'(?<![A-Za-z0-9_])(admit|assume)\s*\(', mask(body)) is not None
        kind = 'spec' if is_spec else ('proof' if mm.group(1).startswith('proof') else 'exec')
        if 'uninterp' in pre:
            kind = 'spec'
        tfuncs.append(dict(name=name, kind=kind, assumed=bool(assumed), imported=imp_name, gen_range=[line, line_of(m, cb)],
                           has_requires=bool(re.search(r'(?<![A-Za-z0-9_])requires(?![A-Za-z0-9_])', mask(sigtxt))),
                           sig=' '.join(sigtxt.split())[:300], body_open_line=line_of(m, ob),
                           body_open_col=ob - line_start(m, ob)))
    return unit, gen, tfuncs


def canary_text(gen, tfuncs):
    """variant of the generated file with `assert(false)` right after the opening brace of every
    contracted function / lemma body (same line, so line numbers are unchanged): each must FAIL,
    which shows that its preconditions are satisfiable and that it generates obligations."""
    lines = list(gen.lines)
    targets = []   # (name, gen_line_of_canary)
    for f in gen.functions:
        if f.get('contracted') and not f.get('declared_unreachable'):
            li = f['body_first_gen_line'] - 1      # 1-based line holding the lone '{'
            assert lines[li - 1].strip() == '{', lines[li - 1]
            lines[li - 1] = '{ assert(false);'
            targets.append((f['name'], li))
    for t in tfuncs:
        if t['kind'] in ('proof', 'exec') and not t['assumed'] and t['name'] != 'main':
            li, col = t['body_open_line'], t['body_open_col']
            l = lines[li - 1]
            assert l[col] == '{', (l, col)
            lines[li - 1] = l[:col + 1] + ' assert(false); ' + l[col + 1:]
            targets.append((t['name'], li))
    return '\n'.join(lines) + '\n', targets
