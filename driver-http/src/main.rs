// stdin: one hex-encoded JSON case per line: {"dir": scratch directory, "requests": [[METHOD, PATH, BODY-string], ..]}
// A fresh index directory is served by the real server; the requests are sent one after another (HTTP/1.1, one connection
// each).  stdout, per case: OK [{"status": n, "body": text}, ..]
use clap::Parser;
use std::io::BufRead;
use tokio::io::{AsyncReadExt, AsyncWriteExt};

fn unhex(s: &str) -> Vec<u8> {
  let b = s.trim().as_bytes();
  (0..b.len() / 2).map(|i| u8::from_str_radix(std::str::from_utf8(&b[2 * i..2 * i + 2]).unwrap_or("00"), 16).unwrap_or(0)).collect()
}

async fn send(addr: &str, method: &str, path: &str, body: &str) -> Result<(u16, String), String> {
  let mut s = tokio::net::TcpStream::connect(addr).await.map_err(|e| e.to_string())?;
  let req = format!(
    "{} {} HTTP/1.1\r\nHost: {}\r\nContent-Type: application/json\r\nContent-Length: {}\r\nConnection: close\r\n\r\n{}",
    method, path, addr, body.len(), body
  );
  s.write_all(req.as_bytes()).await.map_err(|e| e.to_string())?;
  let mut buf = Vec::new();
  s.read_to_end(&mut buf).await.map_err(|e| e.to_string())?;
  let text = String::from_utf8_lossy(&buf).to_string();
  let status = text.split_whitespace().nth(1).and_then(|x| x.parse::<u16>().ok()).unwrap_or(0);
  let body = match text.find("\r\n\r\n") { Some(i) => text[i + 4..].to_string(), None => String::new() };
  // chunked bodies: keep only the payload lines
  let body = if text.to_ascii_lowercase().contains("transfer-encoding: chunked") {
    let mut out = String::new();
    let mut rest = body.as_str();
    loop {
      let Some(nl) = rest.find("\r\n") else { break };
      let n = usize::from_str_radix(rest[..nl].trim(), 16).unwrap_or(0);
      if n == 0 { break; }
      let start = nl + 2;
      if start + n > rest.len() { break; }
      out.push_str(&rest[start..start + n]);
      rest = &rest[(start + n + 2).min(rest.len())..];
    }
    out
  } else { body };
  Ok((status, body))
}

async fn run_case(input: &[u8]) -> String {
  let v: serde_json::Value = match serde_json::from_slice(input) { Ok(v) => v, Err(e) => return format!("ERR bad json {}", e) };
  let dir = std::path::PathBuf::from(v["dir"].as_str().unwrap_or(""));
  if dir.as_os_str().is_empty() { return "ERR no dir".to_string(); }
  let _ = std::fs::remove_dir_all(&dir);
  if let Err(e) = std::fs::create_dir_all(&dir) { return format!("ERR mkdir {}", e); }
  // a free loopback port
  let port = match std::net::TcpListener::bind("127.0.0.1:0") { Ok(l) => l.local_addr().map(|a| a.port()).unwrap_or(0), Err(e) => return format!("ERR port {}", e) };
  let addr = format!("127.0.0.1:{}", port);
  let args = searchlite_http::ServeArgs::parse_from(["searchlite-http", "--index", dir.to_str().unwrap_or(""), "--bind", &addr]);
  let server = tokio::spawn(async move { let _ = searchlite_http::run(args).await; });
  let mut up = false;
  for _ in 0..200 {
    if let Ok((200, _)) = send(&addr, "GET", "/healthz", "").await { up = true; break; }
    tokio::time::sleep(std::time::Duration::from_millis(25)).await;
  }
  if !up { server.abort(); let _ = std::fs::remove_dir_all(&dir); return "ERR server did not come up".to_string(); }
  let empty = Vec::new();
  let mut outs = Vec::new();
  for r in v["requests"].as_array().unwrap_or(&empty) {
    let (m, p, b) = (r[0].as_str().unwrap_or("GET"), r[1].as_str().unwrap_or("/"), r[2].as_str().unwrap_or(""));
    match send(&addr, m, p, b).await {
      Ok((status, body)) => outs.push(serde_json::json!({"status": status, "body": body})),
      Err(e) => outs.push(serde_json::json!({"status": 0, "error": e})),
    }
  }
  server.abort();
  let _ = std::fs::remove_dir_all(&dir);
  format!("OK {}", serde_json::Value::Array(outs))
}

fn main() {
  let rt = tokio::runtime::Builder::new_multi_thread().enable_all().build().unwrap();
  let stdin = std::io::stdin();
  for line in stdin.lock().lines() {
    let line = line.unwrap();
    let input = unhex(&line);
    let out = rt.block_on(run_case(&input));
    println!("{}", out.replace('\n', " "));
  }
}
