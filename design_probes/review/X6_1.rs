// C12: a top_hits aggregation ranked by _score must not depend on the sort of the enclosing
// request: it is an aggregation over the matched documents.
use searchlite_core::api::builder::IndexBuilder;
use searchlite_core::api::types::{
  Document, IndexOptions, KeywordField, NumericField, Schema, SearchRequest, StorageType,
};
use serde_json::{json, Value};

fn doc(id: &str, fields: Vec<(&str, Value)>) -> Document {
  let mut map = std::collections::BTreeMap::new();
  map.insert("_id".to_string(), json!(id));
  for (k, v) in fields {
    map.insert(k.to_string(), v);
  }
  Document { fields: map }
}

fn request(v: Value) -> SearchRequest {
  let mut base = json!({
    "query": "rust",
    "limit": 10,
    "return_hits": true,
    "return_stored": false,
    "highlight_field": null,
    "execution": "bm25",
  });
  for (k, val) in v.as_object().unwrap() {
    base[k] = val.clone();
  }
  serde_json::from_value(base).expect("request")
}

#[test]
fn top_hits_by_score_is_independent_of_request_sort() {
  let tmp = tempfile::tempdir().unwrap();
  let path = tmp.path().to_path_buf();
  let mut schema = Schema::default_text_body();
  schema.keyword_fields.push(KeywordField {
    name: "tag".into(),
    stored: true,
    indexed: true,
    fast: true,
    nullable: false,
  });
  schema.numeric_fields.push(NumericField {
    name: "year".into(),
    i64: true,
    fast: true,
    stored: true,
    nullable: false,
  });
  let opts = IndexOptions {
    path: path.clone(),
    create_if_missing: true,
    enable_positions: true,
    bm25_k1: 1.2,
    bm25_b: 0.75,
    storage: StorageType::Filesystem,
    #[cfg(feature = "vectors")]
    vector_defaults: None,
  };
  let idx = IndexBuilder::create(&path, schema, opts).expect("create index");
  let mut writer = idx.writer().expect("writer");
  // d0 is the weakest match (one occurrence in a long text), d2 the strongest.
  let docs = [
    doc(
      "d0",
      vec![
        ("body", json!("rust alpha beta gamma delta epsilon zeta eta theta iota kappa")),
        ("tag", json!("t")),
        ("year", json!(1)),
      ],
    ),
    doc(
      "d1",
      vec![("body", json!("rust alpha beta")), ("tag", json!("t")), ("year", json!(2))],
    ),
    doc(
      "d2",
      vec![("body", json!("rust rust rust")), ("tag", json!("t")), ("year", json!(3))],
    ),
  ];
  for d in docs.iter() {
    writer.add_document(d).unwrap();
  }
  writer.commit().unwrap();
  let reader = idx.reader().unwrap();

  let aggs = json!({
    "best": {"type": "top_hits", "size": 1},
    "by_tag": {"type": "terms", "field": "tag", "size": null, "shard_size": null,
               "min_doc_count": null, "missing": null,
               "aggs": {"best": {"type": "top_hits", "size": 2,
                                 "sort": [{"field": "_score", "order": "desc"}]}}}
  });

  // Reference: same query, default (score) sort.
  let by_score = reader
    .search(&request(json!({"aggs": aggs.clone()})))
    .unwrap();
  // Same query, same matched set, hits sorted by a fast field.
  let by_year = reader
    .search(&request(json!({
      "aggs": aggs.clone(),
      "sort": [{"field": "year", "order": "asc"}]
    })))
    .unwrap();
  assert_eq!(by_score.total_hits_estimate, 3);
  assert_eq!(by_year.total_hits_estimate, 3);

  let a = serde_json::to_value(&by_score.aggregations).unwrap();
  let b = serde_json::to_value(&by_year.aggregations).unwrap();
  println!("score-sorted request: {a}");
  println!("year-sorted request:  {b}");
  assert_eq!(
    a["best"]["hits"][0]["doc_id"],
    json!("d2"),
    "reference: best scoring document is d2"
  );
  assert_eq!(
    b["best"]["hits"][0]["doc_id"],
    json!("d2"),
    "top_hits by _score under a field-sorted request must still return the best scoring document"
  );
  assert_eq!(a, b, "aggregations must not depend on the request sort");
}
