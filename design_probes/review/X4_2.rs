use std::collections::{BTreeMap, BTreeSet};
use std::path::Path;

use searchlite_core::api::types::{
  Document, ExecutionStrategy, IndexOptions, Query, QueryNode, Schema, SearchRequest, StorageType,
};
use searchlite_core::api::Index;
use serde_json::json;

#[allow(dead_code)]
fn doc(id: &str, body: &str) -> Document {
  let mut map = BTreeMap::new();
  map.insert("_id".to_string(), json!(id));
  map.insert("body".to_string(), json!(body));
  Document { fields: map }
}

fn opts(path: &Path) -> IndexOptions {
  IndexOptions {
    path: path.to_path_buf(),
    create_if_missing: false,
    enable_positions: true,
    bm25_k1: 1.2,
    bm25_b: 0.75,
    storage: StorageType::Filesystem,
    #[cfg(feature = "vectors")]
    vector_defaults: None,
  }
}

fn match_all() -> SearchRequest {
  SearchRequest {
    query: Query::Node(QueryNode::MatchAll { boost: None }),
    fields: None,
    filter: None,
    limit: 1000,
    return_hits: true,
    candidate_size: None,
    sort: Vec::new(),
    cursor: None,
    execution: ExecutionStrategy::Wand,
    bmw_block_size: None,
    fuzzy: None,
    #[cfg(feature = "vectors")]
    vector_query: None,
    #[cfg(feature = "vectors")]
    vector_filter: None,
    return_stored: true,
    highlight_field: None,
    highlight: None,
    collapse: None,
    aggs: BTreeMap::new(),
    suggest: BTreeMap::new(),
    rescore: None,
    explain: false,
    profile: false,
  }
}

/// (id, body) of every document a fresh reader returns for match_all.
fn contents(idx: &Index) -> anyhow::Result<Vec<(String, String)>> {
  let reader = idx.reader()?;
  let res = reader.search(&match_all())?;
  let mut out: Vec<(String, String)> = res
    .hits
    .iter()
    .map(|h| {
      let body = h
        .fields
        .as_ref()
        .and_then(|f| f.get("body"))
        .map(|v| v.to_string())
        .unwrap_or_default();
      (h.doc_id.clone(), body)
    })
    .collect();
  out.sort();
  Ok(out)
}

#[allow(dead_code)]
fn ids(idx: &Index) -> BTreeSet<String> {
  contents(idx).unwrap().into_iter().map(|(id, _)| id).collect()
}

/// C04 / C02: two writer handles of one index. The second handle is opened while the first one
/// still has A queued, so it copies A into its own queue. After the first handle commits A and
/// then commits a delete of A, the second handle's commit re-applies the stale add.
#[test]
fn second_handle_resurrects_deleted_document() {
  let tmp = tempfile::tempdir().unwrap();
  let path = tmp.path().to_path_buf();
  let idx = Index::create(&path, Schema::default_text_body(), opts(&path)).unwrap();

  let mut w1 = idx.writer().unwrap();
  w1.add_document(&doc("A", "alpha")).unwrap();
  let mut w2 = idx.writer().unwrap(); // replays w1's queued add of A into w2's queue
  w1.commit().unwrap();
  assert_eq!(ids(&idx).len(), 1);
  w1.delete_document("A").unwrap();
  w1.commit().unwrap();
  assert!(ids(&idx).is_empty(), "A deleted and committed");

  // w2 never had add(A) called on it.
  w2.add_document(&doc("B", "beta")).unwrap();
  w2.commit().unwrap();

  let got = ids(&idx);
  let want: BTreeSet<String> = ["B"].iter().map(|s| s.to_string()).collect();
  assert_eq!(got, want, "last committed operation on A was a delete; A must stay deleted");
}

/// Same mechanism, rollback: an operation rolled back on the handle that queued it is still
/// committed by a second handle that was opened in between.
#[test]
fn second_handle_commits_rolled_back_add() {
  let tmp = tempfile::tempdir().unwrap();
  let path = tmp.path().to_path_buf();
  let idx = Index::create(&path, Schema::default_text_body(), opts(&path)).unwrap();
  let mut w1 = idx.writer().unwrap();
  w1.add_document(&doc("A", "alpha")).unwrap();
  let mut w2 = idx.writer().unwrap();
  w1.rollback().unwrap();
  w2.add_document(&doc("B", "beta")).unwrap();
  w2.commit().unwrap();
  let got = ids(&idx);
  let want: BTreeSet<String> = ["B"].iter().map(|s| s.to_string()).collect();
  assert_eq!(got, want, "A was rolled back and must not become visible");
}

/// Same mechanism, durability: w1's commit truncates the shared log, which also erases w2's
/// queued-and-not-yet-committed record; when w2 is dropped (log sync succeeds) and the process
/// restarts, B is gone.
#[test]
fn commit_on_one_handle_erases_other_handles_queued_ops_from_the_log() {
  let tmp = tempfile::tempdir().unwrap();
  let path = tmp.path().to_path_buf();
  {
    let idx = Index::create(&path, Schema::default_text_body(), opts(&path)).unwrap();
    let mut w1 = idx.writer().unwrap();
    let mut w2 = idx.writer().unwrap();
    w1.add_document(&doc("A", "alpha")).unwrap();
    w2.add_document(&doc("B", "beta")).unwrap();
    w1.commit().unwrap();
    drop(w2); // syncs the log; B was acknowledged as queued
    drop(w1);
  }
  let idx = Index::open(opts(&path)).unwrap();
  let mut w = idx.writer().unwrap();
  w.commit().unwrap();
  let got = ids(&idx);
  let want: BTreeSet<String> = ["A", "B"].iter().map(|s| s.to_string()).collect();
  assert_eq!(got, want, "B was queued and synced but is not recovered");
}
