use std::collections::BTreeMap;

use searchlite_core::api::types::{
  Document, IndexOptions, KeywordField, NumericField, Schema, SearchRequest, StorageType,
};
use searchlite_core::api::Index;
use serde_json::json;

fn doc(id: &str, fields: Vec<(&str, serde_json::Value)>) -> Document {
  let mut map = BTreeMap::new();
  map.insert("_id".to_string(), json!(id));
  for (k, v) in fields {
    map.insert(k.to_string(), v);
  }
  Document { fields: map }
}

fn base_options(path: &std::path::Path) -> IndexOptions {
  IndexOptions {
    path: path.to_path_buf(),
    create_if_missing: true,
    enable_positions: true,
    bm25_k1: 0.9,
    bm25_b: 0.4,
    storage: StorageType::Filesystem,
    #[cfg(feature = "vectors")]
    vector_defaults: None,
  }
}

fn schema() -> Schema {
  let mut schema = Schema::default_text_body();
  schema.numeric_fields.push(NumericField {
    name: "price".into(),
    i64: false,
    fast: true,
    stored: true,
    nullable: true,
  });
  schema.numeric_fields.push(NumericField {
    name: "rank".into(),
    i64: true,
    fast: true,
    stored: true,
    nullable: true,
  });
  schema.keyword_fields.push(KeywordField {
    name: "tag".into(),
    stored: true,
    indexed: true,
    fast: true,
    nullable: true,
  });
  schema
}

fn req(v: serde_json::Value) -> SearchRequest {
  serde_json::from_value(v).unwrap()
}

/// Finds f64 values whose shortest JSON rendering does not parse back to the same bits.
fn non_roundtripping_floats(n: usize) -> Vec<f64> {
  let mut out = Vec::new();
  let mut state: u64 = 0x9E3779B97F4A7C15;
  let mut tries = 0u64;
  while out.len() < n && tries < 5_000_000 {
    tries += 1;
    state ^= state << 13;
    state ^= state >> 7;
    state ^= state << 17;
    // plain decimal values in a "price-like" range with many digits
    let v = (state % 1_000_000_000_000u64) as f64 / 1_000_000_007.0;
    let text = serde_json::to_string(&v).unwrap();
    let back: f64 = serde_json::from_str(&text).unwrap();
    if back.to_bits() != v.to_bits() {
      out.push(v);
    }
  }
  out
}

#[test]
fn probe_float_roundtrip() {
  let bad = non_roundtripping_floats(3);
  println!("non-roundtripping floats: {:?}", bad);
  for v in bad {
    let text = serde_json::to_string(&v).unwrap();
    let back: f64 = serde_json::from_str(&text).unwrap();
    println!("{v:e} bits {:x} -> text {text} -> bits {:x}", v.to_bits(), back.to_bits());
  }
}

#[test]
fn f64_sort_cursor_roundtrip() {
  // 102.12384227413311 (bits 0x405987ed082550e5) is printed by serde_json as
  // "102.12384227413311" and parsed back as 0x405987ed082550e6 (serde_json without the
  // `float_roundtrip` feature). Fall back to a search if the build behaves differently.
  let mut bad = vec![102.12384227413311f64];
  {
    let text = serde_json::to_string(&bad[0]).unwrap();
    let back: f64 = serde_json::from_str(&text).unwrap();
    if back.to_bits() == bad[0].to_bits() {
      bad = non_roundtripping_floats(1);
    }
  }
  assert!(!bad.is_empty(), "no f64 that fails the JSON round trip was found");
  println!("sort value under test: {:?} (bits {:x})", bad[0], bad[0].to_bits());
  let tmp = tempfile::tempdir().unwrap();
  let path = tmp.path().to_path_buf();
  let idx = Index::create(&path, schema(), base_options(&path)).unwrap();
  {
    let mut w = idx.writer().unwrap();
    w.add_document(&doc("a", vec![("body", json!("rust")), ("price", json!(bad[0]))]))
      .unwrap();
    w.add_document(&doc(
      "b",
      vec![("body", json!("rust")), ("price", json!(bad[0] + 1.0))],
    ))
    .unwrap();
    w.add_document(&doc(
      "c",
      vec![("body", json!("rust")), ("price", json!(bad[0] + 2.0))],
    ))
    .unwrap();
    w.commit().unwrap();
  }
  let reader = idx.reader().unwrap();
  let base = json!({
    "query": {"type": "match_all"},
    "limit": 1,
    "return_stored": false,
    "highlight_field": null,
    "sort": [{"field": "price", "order": "asc"}],
  });
  let full = reader
    .search(&req({
      let mut b = base.clone();
      b["limit"] = json!(10);
      b
    }))
    .unwrap();
  let full_ids: Vec<String> = full.hits.iter().map(|h| h.doc_id.clone()).collect();
  assert_eq!(full_ids, vec!["a", "b", "c"]);

  let mut walked = Vec::new();
  let mut cursor: Option<String> = None;
  loop {
    let mut b = base.clone();
    if let Some(c) = &cursor {
      b["cursor"] = json!(c);
    }
    let page = reader.search(&req(b)).expect("page request must succeed");
    for h in page.hits.iter() {
      walked.push(h.doc_id.clone());
    }
    match page.next_cursor {
      Some(c) => cursor = Some(c),
      None => break,
    }
  }
  assert_eq!(walked, full_ids);
}

