use std::collections::BTreeMap;

use searchlite_core::api::types::{
  Document, IndexOptions, KeywordField, NumericField, Schema, SearchRequest, StorageType,
};
use searchlite_core::api::Index;
use serde_json::json;

fn doc(id: &str, fields: Vec<(&str, serde_json::Value)>) -> Document {
  let mut map = BTreeMap::new();
  map.insert("_id".to_string(), json!(id));
  for (k, v) in fields {
    map.insert(k.to_string(), v);
  }
  Document { fields: map }
}

fn base_options(path: &std::path::Path) -> IndexOptions {
  IndexOptions {
    path: path.to_path_buf(),
    create_if_missing: true,
    enable_positions: true,
    bm25_k1: 0.9,
    bm25_b: 0.4,
    storage: StorageType::Filesystem,
    #[cfg(feature = "vectors")]
    vector_defaults: None,
  }
}

fn schema() -> Schema {
  let mut schema = Schema::default_text_body();
  schema.numeric_fields.push(NumericField {
    name: "price".into(),
    i64: false,
    fast: true,
    stored: true,
    nullable: true,
  });
  schema.numeric_fields.push(NumericField {
    name: "rank".into(),
    i64: true,
    fast: true,
    stored: true,
    nullable: true,
  });
  schema.keyword_fields.push(KeywordField {
    name: "tag".into(),
    stored: true,
    indexed: true,
    fast: true,
    nullable: true,
  });
  schema
}

fn req(v: serde_json::Value) -> SearchRequest {
  serde_json::from_value(v).unwrap()
}

#[test]
fn delete_only_commit_keeps_cursor_valid() {
  let tmp = tempfile::tempdir().unwrap();
  let path = tmp.path().to_path_buf();
  let idx = Index::create(&path, schema(), base_options(&path)).unwrap();
  {
    let mut w = idx.writer().unwrap();
    for (i, id) in ["a", "b", "c", "d", "e", "f"].iter().enumerate() {
      w.add_document(&doc(id, vec![("body", json!("rust")), ("rank", json!(i as i64))]))
        .unwrap();
    }
    w.commit().unwrap();
  }
  let base = json!({
    "query": {"type": "match_all"},
    "limit": 2,
    "return_stored": false,
    "highlight_field": null,
    "sort": [{"field": "rank", "order": "asc"}],
  });
  let reader = idx.reader().unwrap();
  let page1 = reader.search(&req(base.clone())).unwrap();
  let ids1: Vec<String> = page1.hits.iter().map(|h| h.doc_id.clone()).collect();
  assert_eq!(ids1, vec!["a", "b"]);
  assert_eq!(page1.total_hits_estimate, 6);
  let cursor = page1.next_cursor.clone().unwrap();

  // The index changes: a document already returned on page 1 and one not yet returned are deleted.
  {
    let mut w = idx.writer().unwrap();
    w.delete_documents(&["a".to_string(), "d".to_string()]).unwrap();
    w.commit().unwrap();
  }
  let reader2 = idx.reader().unwrap();
  let truth = reader2
    .search(&req({
      let mut b = base.clone();
      b["limit"] = json!(100);
      b
    }))
    .unwrap();
  println!(
    "after delete: true matches = {} ids = {:?}",
    truth.total_hits_estimate,
    truth.hits.iter().map(|h| h.doc_id.clone()).collect::<Vec<_>>()
  );
  assert_eq!(truth.total_hits_estimate, 4);

  let mut b = base.clone();
  b["cursor"] = json!(cursor);
  let page2 = reader2.search(&req(b));
  match page2 {
    Err(e) => println!("cursor rejected as expected: {e}"),
    Ok(p) => {
      let ids: Vec<String> = p.hits.iter().map(|h| h.doc_id.clone()).collect();
      println!(
        "cursor ACCEPTED after the index changed: hits {:?}, total_hits_estimate {}",
        ids, p.total_hits_estimate
      );
      assert!(
        p.total_hits_estimate <= 4,
        "total_hits_estimate {} exceeds the true number of matches 4",
        p.total_hits_estimate
      );
      panic!("a cursor of an older index state was accepted");
    }
  }
}
