use std::collections::{BTreeMap, BTreeSet};
use std::path::Path;

use searchlite_core::api::types::{
  Document, ExecutionStrategy, IndexOptions, Query, QueryNode, Schema, SearchRequest, StorageType,
};
use searchlite_core::api::Index;
use serde_json::json;

#[allow(dead_code)]
fn doc(id: &str, body: &str) -> Document {
  let mut map = BTreeMap::new();
  map.insert("_id".to_string(), json!(id));
  map.insert("body".to_string(), json!(body));
  Document { fields: map }
}

fn opts(path: &Path) -> IndexOptions {
  IndexOptions {
    path: path.to_path_buf(),
    create_if_missing: false,
    enable_positions: true,
    bm25_k1: 1.2,
    bm25_b: 0.75,
    storage: StorageType::Filesystem,
    #[cfg(feature = "vectors")]
    vector_defaults: None,
  }
}

fn match_all() -> SearchRequest {
  SearchRequest {
    query: Query::Node(QueryNode::MatchAll { boost: None }),
    fields: None,
    filter: None,
    limit: 1000,
    return_hits: true,
    candidate_size: None,
    sort: Vec::new(),
    cursor: None,
    execution: ExecutionStrategy::Wand,
    bmw_block_size: None,
    fuzzy: None,
    #[cfg(feature = "vectors")]
    vector_query: None,
    #[cfg(feature = "vectors")]
    vector_filter: None,
    return_stored: true,
    highlight_field: None,
    highlight: None,
    collapse: None,
    aggs: BTreeMap::new(),
    suggest: BTreeMap::new(),
    rescore: None,
    explain: false,
    profile: false,
  }
}

/// (id, body) of every document a fresh reader returns for match_all.
fn contents(idx: &Index) -> anyhow::Result<Vec<(String, String)>> {
  let reader = idx.reader()?;
  let res = reader.search(&match_all())?;
  let mut out: Vec<(String, String)> = res
    .hits
    .iter()
    .map(|h| {
      let body = h
        .fields
        .as_ref()
        .and_then(|f| f.get("body"))
        .map(|v| v.to_string())
        .unwrap_or_default();
      (h.doc_id.clone(), body)
    })
    .collect();
  out.sort();
  Ok(out)
}

#[allow(dead_code)]
fn ids(idx: &Index) -> BTreeSet<String> {
  contents(idx).unwrap().into_iter().map(|(id, _)| id).collect()
}

/// C02: an operation appended after a torn log tail and followed by a successful log sync
/// (writer drop) must be recovered by the next writer.
#[test]
fn synced_add_after_torn_tail_is_lost() {
  let tmp = tempfile::tempdir().unwrap();
  let path = tmp.path().to_path_buf();
  let wal_path = path.join("wal.log");

  // Run 1: queue A, writer dropped (log synced), then the process "crashes" while appending
  // another record: only the first half of that record reaches the disk (torn tail).
  {
    let idx = Index::create(&path, Schema::default_text_body(), opts(&path)).unwrap();
    let mut w = idx.writer().unwrap();
    w.add_document(&doc("A", "alpha")).unwrap();
    drop(w);
  }
  let intact = std::fs::read(&wal_path).unwrap();
  assert!(!intact.is_empty());
  {
    use std::io::Write;
    let mut f = std::fs::OpenOptions::new().append(true).open(&wal_path).unwrap();
    // torn copy of a valid record: length prefix + type + part of the payload, no checksum
    f.write_all(&intact[..intact.len() / 2]).unwrap();
    f.sync_all().unwrap();
  }

  // Run 2: restart. The writer recovers A (intact prefix). Queue B, drop the writer: the log
  // is synced successfully, so B "reached durable storage".
  {
    let idx = Index::open(opts(&path)).unwrap();
    let mut w = idx.writer().unwrap();
    w.add_document(&doc("B", "beta")).unwrap();
    drop(w);
  }

  // Run 3: restart, commit what the log holds.
  let idx = Index::open(opts(&path)).unwrap();
  let mut w = idx.writer().unwrap();
  w.commit().unwrap();
  drop(w);
  let got = ids(&idx);
  let want: BTreeSet<String> = ["A", "B"].iter().map(|s| s.to_string()).collect();
  assert_eq!(got, want, "B was queued and synced after the torn tail but is not recovered");
}

/// Same fault, delete instead of add: the synced delete is lost, so the document it removed
/// stays visible after the recovered queue is committed.
#[test]
fn synced_delete_after_torn_tail_is_lost() {
  let tmp = tempfile::tempdir().unwrap();
  let path = tmp.path().to_path_buf();
  let wal_path = path.join("wal.log");
  {
    let idx = Index::create(&path, Schema::default_text_body(), opts(&path)).unwrap();
    let mut w = idx.writer().unwrap();
    w.add_document(&doc("A", "alpha")).unwrap();
    w.commit().unwrap();
    w.add_document(&doc("C", "gamma")).unwrap();
    drop(w);
  }
  // torn tail: a few bytes of a record (length says 40 bytes follow, only 3 do)
  {
    use std::io::Write;
    let mut f = std::fs::OpenOptions::new().append(true).open(&wal_path).unwrap();
    f.write_all(&[40u8, 1, b'{', b'"', b'f']).unwrap();
    f.sync_all().unwrap();
  }
  {
    let idx = Index::open(opts(&path)).unwrap();
    let mut w = idx.writer().unwrap();
    w.delete_document("A").unwrap();
    drop(w); // log sync succeeds
  }
  let idx = Index::open(opts(&path)).unwrap();
  let mut w = idx.writer().unwrap();
  w.commit().unwrap();
  drop(w);
  let got = ids(&idx);
  let want: BTreeSet<String> = ["C"].iter().map(|s| s.to_string()).collect();
  assert_eq!(got, want, "the synced delete of A was queued after the torn tail and is lost");
}
