use std::collections::BTreeMap;

use searchlite_core::api::types::{Document, IndexOptions, Schema, SearchRequest, StorageType};
use searchlite_core::api::Index;
use serde_json::json;

fn doc(id: &str, fields: Vec<(&str, serde_json::Value)>) -> Document {
  let mut map = BTreeMap::new();
  map.insert("_id".to_string(), json!(id));
  for (k, v) in fields {
    map.insert(k.to_string(), v);
  }
  Document { fields: map }
}

fn base_options(path: &std::path::Path) -> IndexOptions {
  IndexOptions {
    path: path.to_path_buf(),
    create_if_missing: true,
    enable_positions: true,
    bm25_k1: 0.9,
    bm25_b: 0.4,
    storage: StorageType::Filesystem,
    #[cfg(feature = "vectors")]
    vector_defaults: None,
  }
}

fn req(v: serde_json::Value) -> SearchRequest {
  serde_json::from_value(v).unwrap()
}

#[test]
fn dotted_leaf_inside_nested_clause() {
  let schema: Schema = serde_json::from_value(json!({
    "doc_id_field": "_id",
    "text_fields": [{"name": "body", "analyzer": "default", "stored": true, "indexed": true}],
    "keyword_fields": [],
    "numeric_fields": [],
    "nested_fields": [{
      "name": "comment",
      "fields": [
        {"type": "keyword", "name": "author", "fast": true, "stored": true, "indexed": true},
        {"type": "object", "name": "reply", "nullable": true, "fields": [
          {"type": "keyword", "name": "tag", "fast": true, "stored": true, "indexed": true}
        ]}
      ]
    }]
  }))
  .unwrap();
  let tmp = tempfile::tempdir().unwrap();
  let path = tmp.path().to_path_buf();
  let idx = Index::create(&path, schema, base_options(&path)).unwrap();
  {
    let mut w = idx.writer().unwrap();
    w.add_document(&doc(
      "d1",
      vec![
        ("body", json!("x")),
        (
          "comment",
          json!([
            {"author": "alice", "reply": [{"tag": "x"}, {"tag": "y"}]},
            {"author": "bob", "reply": []}
          ]),
        ),
      ],
    ))
    .unwrap();
    w.commit().unwrap();
  }
  let reader = idx.reader().unwrap();
  let run = |filter: serde_json::Value| -> Vec<String> {
    let r = reader
      .search(&req(json!({
        "query": {"type": "match_all"},
        "limit": 10,
        "return_stored": false,
        "highlight_field": null,
        "filter": filter
      })))
      .unwrap();
    r.hits.iter().map(|h| h.doc_id.clone()).collect()
  };
  // reference: the fully nested form
  let nested_bob = run(json!({"Nested": {"path": "comment", "filter": {"And": [
    {"KeywordEq": {"field": "author", "value": "bob"}},
    {"Nested": {"path": "reply", "filter": {"KeywordEq": {"field": "tag", "value": "y"}}}}
  ]}}}));
  let nested_alice = run(json!({"Nested": {"path": "comment", "filter": {"And": [
    {"KeywordEq": {"field": "author", "value": "alice"}},
    {"Nested": {"path": "reply", "filter": {"KeywordEq": {"field": "tag", "value": "y"}}}}
  ]}}}));
  println!("nested form: bob+y -> {:?}, alice+y -> {:?}", nested_bob, nested_alice);
  assert!(nested_bob.is_empty());
  assert_eq!(nested_alice, vec!["d1"]);
  // dotted leaf inside the nested clause
  let dotted_bob = run(json!({"Nested": {"path": "comment", "filter": {"And": [
    {"KeywordEq": {"field": "author", "value": "bob"}},
    {"KeywordEq": {"field": "reply.tag", "value": "y"}}
  ]}}}));
  let dotted_alice = run(json!({"Nested": {"path": "comment", "filter": {"And": [
    {"KeywordEq": {"field": "author", "value": "alice"}},
    {"KeywordEq": {"field": "reply.tag", "value": "y"}}
  ]}}}));
  println!("dotted form: bob+y -> {:?}, alice+y -> {:?}", dotted_bob, dotted_alice);
  assert!(dotted_bob.is_empty(), "bob has no reply, yet the dotted form matched");
  assert_eq!(dotted_alice, vec!["d1"]);
}
