// C10: function_score combines the base query score with the function score through boost_mode.
// A base score of 0 (inner query boosted by 0: "still matches, contributes no score") must be
// combined as 0, not as 1.
use searchlite_core::api::builder::IndexBuilder;
use searchlite_core::api::types::{Document, IndexOptions, Schema, SearchRequest, StorageType};
use serde_json::{json, Value};

fn doc(id: &str, body: &str) -> Document {
  let mut map = std::collections::BTreeMap::new();
  map.insert("_id".to_string(), json!(id));
  map.insert("body".to_string(), json!(body));
  Document { fields: map }
}

fn request(query: Value) -> SearchRequest {
  serde_json::from_value(json!({
    "query": query,
    "limit": 10,
    "return_hits": true,
    "return_stored": false,
    "highlight_field": null,
    "execution": "bm25",
  }))
  .expect("request")
}

#[test]
fn zero_base_score_is_combined_as_zero() {
  let tmp = tempfile::tempdir().unwrap();
  let path = tmp.path().to_path_buf();
  let opts = IndexOptions {
    path: path.clone(),
    create_if_missing: true,
    enable_positions: true,
    bm25_k1: 1.2,
    bm25_b: 0.75,
    storage: StorageType::Filesystem,
    #[cfg(feature = "vectors")]
    vector_defaults: None,
  };
  let idx = IndexBuilder::create(&path, Schema::default_text_body(), opts).expect("create index");
  let mut writer = idx.writer().expect("writer");
  writer.add_document(&doc("d0", "gamma")).unwrap();
  writer.add_document(&doc("d1", "other")).unwrap();
  writer.commit().unwrap();
  let reader = idx.reader().unwrap();

  // Sanity: the inner query alone, boosted by 0, scores 0.
  let inner = json!({"type": "term", "field": "body", "value": "gamma", "boost": 0.0});
  let base = reader.search(&request(inner.clone())).unwrap();
  assert_eq!(base.hits.len(), 1);
  assert_eq!(base.hits[0].score, 0.0, "boost 0 disables the score contribution");

  let mut failures = Vec::new();
  for (boost_mode, weight, expected) in [
    ("sum", 3.0_f32, 3.0_f32), // 0 + 3
    ("max", 0.5, 0.5),         // max(0, 0.5)
    ("min", 3.0, 0.0),         // min(0, 3)
    ("replace", 3.0, 3.0),     // 3
  ] {
    let q = json!({
      "type": "function_score",
      "query": inner.clone(),
      "functions": [{"type": "weight", "weight": weight}],
      "boost_mode": boost_mode
    });
    let resp = reader.search(&request(q)).unwrap();
    assert_eq!(resp.hits.len(), 1);
    let got = resp.hits[0].score;
    println!("boost_mode={boost_mode} weight={weight}: base=0 -> score {got} (expected {expected})");
    if (got - expected).abs() > 1e-6 {
      failures.push(format!("{boost_mode}: got {got}, expected {expected}"));
    }
  }
  assert!(failures.is_empty(), "zero base score combined as 1: {failures:?}");
}
