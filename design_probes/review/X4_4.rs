use searchlite_core::api::types::KeywordField;
use std::collections::{BTreeMap, BTreeSet};
use std::path::Path;

use searchlite_core::api::types::{
  Document, ExecutionStrategy, IndexOptions, Query, QueryNode, Schema, SearchRequest, StorageType,
};
use searchlite_core::api::Index;
use serde_json::json;

#[allow(dead_code)]
fn doc(id: &str, body: &str) -> Document {
  let mut map = BTreeMap::new();
  map.insert("_id".to_string(), json!(id));
  map.insert("body".to_string(), json!(body));
  Document { fields: map }
}

fn opts(path: &Path) -> IndexOptions {
  IndexOptions {
    path: path.to_path_buf(),
    create_if_missing: false,
    enable_positions: true,
    bm25_k1: 1.2,
    bm25_b: 0.75,
    storage: StorageType::Filesystem,
    #[cfg(feature = "vectors")]
    vector_defaults: None,
  }
}

fn match_all() -> SearchRequest {
  SearchRequest {
    query: Query::Node(QueryNode::MatchAll { boost: None }),
    fields: None,
    filter: None,
    limit: 1000,
    return_hits: true,
    candidate_size: None,
    sort: Vec::new(),
    cursor: None,
    execution: ExecutionStrategy::Wand,
    bmw_block_size: None,
    fuzzy: None,
    #[cfg(feature = "vectors")]
    vector_query: None,
    #[cfg(feature = "vectors")]
    vector_filter: None,
    return_stored: true,
    highlight_field: None,
    highlight: None,
    collapse: None,
    aggs: BTreeMap::new(),
    suggest: BTreeMap::new(),
    rescore: None,
    explain: false,
    profile: false,
  }
}

/// (id, body) of every document a fresh reader returns for match_all.
fn contents(idx: &Index) -> anyhow::Result<Vec<(String, String)>> {
  let reader = idx.reader()?;
  let res = reader.search(&match_all())?;
  let mut out: Vec<(String, String)> = res
    .hits
    .iter()
    .map(|h| {
      let body = h
        .fields
        .as_ref()
        .and_then(|f| f.get("body"))
        .map(|v| v.to_string())
        .unwrap_or_default();
      (h.doc_id.clone(), body)
    })
    .collect();
  out.sort();
  Ok(out)
}

#[allow(dead_code)]
fn ids(idx: &Index) -> BTreeSet<String> {
  contents(idx).unwrap().into_iter().map(|(id, _)| id).collect()
}

/// C15: a document whose stored projection exceeds the docstore cap (32 MiB) is accepted by
/// add_document, but every commit that contains it fails; because the document stays in the
/// log, it blocks all later commits, also from new writers and after a restart.
#[test]
fn oversized_document_is_accepted_then_blocks_every_commit() {
  let tmp = tempfile::tempdir().unwrap();
  let path = tmp.path().to_path_buf();
  let mut schema = Schema::default_text_body();
  schema.keyword_fields.push(KeywordField {
    name: "blob".into(),
    stored: true,
    indexed: false,
    fast: false,
    nullable: false,
  });
  let idx = Index::create(&path, schema, opts(&path)).unwrap();
  let big = "x".repeat(32 * 1024 * 1024 + 16);
  let mut d = doc("big", "hello");
  d.fields.insert("blob".into(), json!(big));

  let mut w = idx.writer().unwrap();
  let accepted = w.add_document(&d);
  assert!(accepted.is_ok(), "document was rejected at add time (fine): {accepted:?}");
  let first = w.commit();
  eprintln!("commit of accepted document: {first:?}");
  drop(w);

  // A later, perfectly fine document cannot be committed either: restart, new writer.
  drop(idx);
  let idx = Index::open(opts(&path)).unwrap();
  let mut w2 = idx.writer().unwrap();
  w2.add_document(&doc("small", "world")).unwrap();
  let second = w2.commit();
  eprintln!("commit after restart: {second:?}");
  assert!(
    first.is_ok() && second.is_ok(),
    "accepted document makes commit fail: first={first:?} second={second:?}"
  );
}
