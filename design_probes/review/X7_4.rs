// C16: requests that deserialize from JSON and make IndexReader::search panic or spin forever.
// Only public APIs are used.
use std::panic::{catch_unwind, AssertUnwindSafe};
use std::sync::mpsc;
use std::time::Duration;

use searchlite_core::api::types::{
  Document, IndexOptions, KeywordField, NumericField, Schema, SearchRequest, StorageType,
};
use searchlite_core::api::Index;
use serde_json::json;

fn build_index() -> Index {
  let path = std::path::PathBuf::from("/x7agg");
  let mut schema = Schema::default_text_body();
  schema.keyword_fields.push(KeywordField {
    name: "tag".into(),
    stored: true,
    indexed: true,
    fast: true,
    nullable: false,
  });
  schema.numeric_fields.push(NumericField {
    name: "n".into(),
    i64: true,
    fast: true,
    stored: true,
    nullable: false,
  });
  let opts = IndexOptions {
    path: path.clone(),
    create_if_missing: true,
    enable_positions: true,
    bm25_k1: 1.2,
    bm25_b: 0.75,
    storage: StorageType::InMemory,
    #[cfg(feature = "vectors")]
    vector_defaults: None,
  };
  let idx = Index::create(&path, schema, opts).unwrap();
  let mut w = idx.writer().unwrap();
  for (id, n) in [("a", 1i64), ("b", 2), ("c", 3)] {
    w.add_document(&Document {
      fields: [
        ("_id".to_string(), json!(id)),
        ("body".to_string(), json!("hello world")),
        ("tag".to_string(), json!("t")),
        ("n".to_string(), json!(n)),
      ]
      .into_iter()
      .collect(),
    })
    .unwrap();
  }
  w.commit().unwrap();
  idx
}

fn request(aggs: serde_json::Value) -> SearchRequest {
  // goes through the same serde path as the HTTP / CLI / FFI callers
  let text = json!({
    "query": {"type": "match_all"},
    "limit": 10,
    "return_stored": false,
    "highlight_field": null,
    "aggs": aggs
  })
  .to_string();
  serde_json::from_str(&text).expect("request deserializes")
}

/// Runs the search on its own thread; Ok(Ok(..)) = returned, Ok(Err(..)) = panicked,
/// Err(()) = still running after `secs` seconds.
fn run(req: SearchRequest, secs: u64) -> Result<Result<String, String>, ()> {
  let (tx, rx) = mpsc::channel();
  std::thread::spawn(move || {
    let idx = build_index();
    let reader = idx.reader().unwrap();
    let out = catch_unwind(AssertUnwindSafe(|| match reader.search(&req) {
      Ok(r) => format!("Ok, {} hits", r.hits.len()),
      Err(e) => format!("Err({e})"),
    }))
    .map_err(|p| {
      p.downcast_ref::<String>()
        .cloned()
        .or_else(|| p.downcast_ref::<&str>().map(|s| s.to_string()))
        .unwrap_or_else(|| "panic".to_string())
    });
    let _ = tx.send(out);
  });
  rx.recv_timeout(Duration::from_secs(secs)).map_err(|_| ())
}

/// moving_avg `predict` is used as a Vec length without any cap:
/// `vec![last_avg; predict]` in apply_moving_avg_pipeline.
#[test]
fn moving_avg_predict_max_panics() {
  let req = request(json!({
    "h": {
      "type": "histogram", "field": "n", "interval": 1.0,
      "aggs": {
        "ma": {"type": "moving_avg", "buckets_path": "_count", "window": 2,
               "predict": 18446744073709551615u64}
      }
    }
  }));
  let out = run(req, 20);
  eprintln!("moving_avg predict=usize::MAX -> {out:?}");
  match out {
    Ok(Ok(_)) => {}
    Ok(Err(p)) => panic!("search panicked: {p}"),
    Err(()) => panic!("search did not return within 20 s"),
  }
}

/// fixed_interval "0s" passes validate_date_histogram_config (parse_interval_seconds gives
/// Some(0.0)); with bounds, DateHistogramCollector::finish then loops on
/// `current = current.checked_add(0)` forever.
#[test]
fn date_histogram_zero_fixed_interval_with_bounds_hangs() {
  let req = request(json!({
    "d": {
      "type": "date_histogram", "field": "n", "fixed_interval": "0s",
      "extended_bounds": {"min": "0", "max": "10"}
    }
  }));
  let out = run(req, 10);
  eprintln!("date_histogram fixed_interval=0s + extended_bounds -> {out:?}");
  match out {
    Ok(Ok(_)) => {}
    Ok(Err(p)) => panic!("search panicked: {p}"),
    Err(()) => panic!("search did not return within 10 s (endless loop)"),
  }
}

/// The number of buckets generated between histogram bounds is not capped, and the bucket
/// index is an i64 that is incremented without overflow check. With bounds at 1e19 the index
/// starts saturated at i64::MAX: `bucket_id += 1` overflows (panic in debug builds; in release
/// builds it wraps to i64::MIN and the loop inserts buckets until memory is exhausted).
#[test]
fn histogram_bounds_overflow_bucket_index() {
  let req = request(json!({
    "h": {
      "type": "histogram", "field": "n", "interval": 1.0,
      "extended_bounds": {"min": 1e19, "max": 1e19}
    }
  }));
  let out = run(req, 10);
  eprintln!("histogram extended_bounds=1e19 -> {out:?}");
  match out {
    Ok(Ok(_)) => {}
    Ok(Err(p)) => panic!("search panicked: {p}"),
    Err(()) => panic!("search did not return within 10 s"),
  }
}
