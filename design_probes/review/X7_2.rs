// Fault injection through a wrapper around the public Storage / StorageFile traits.
// Uses only public APIs of searchlite-core.
use std::io::{Read, Seek, SeekFrom, Write};
use std::path::{Path, PathBuf};
use std::sync::atomic::{AtomicBool, AtomicUsize, Ordering};
use std::sync::Arc;

use anyhow::{anyhow, Result};
use searchlite_core::api::types::{Document, IndexOptions, SearchRequest, StorageType};
use searchlite_core::api::Index;
use searchlite_core::storage::{DynFile, InMemoryStorage, Storage, StorageFile};
use searchlite_core::Schema;

#[derive(Default)]
struct Faults {
  /// fail the next write to wal.log (before any byte is written)
  fail_wal_write: AtomicBool,
  /// fail the next set_len on wal.log (before its effect)
  fail_wal_set_len: AtomicBool,
  /// number of atomic_write(MANIFEST.json) calls to let through before failing `manifest_failures` of them
  manifest_pass: AtomicUsize,
  manifest_failures: AtomicUsize,
  log: parking_lot_free::Log,
}

mod parking_lot_free {
  use std::sync::Mutex;
  #[derive(Default)]
  pub struct Log(pub Mutex<Vec<String>>);
  impl Log {
    pub fn push(&self, s: String) {
      self.0.lock().unwrap().push(s);
    }
  }
}

struct FaultyStorage {
  inner: InMemoryStorage,
  faults: Arc<Faults>,
}

struct FaultyFile {
  inner: DynFile,
  is_wal: bool,
  faults: Arc<Faults>,
}

impl Read for FaultyFile {
  fn read(&mut self, buf: &mut [u8]) -> std::io::Result<usize> {
    self.inner.read(buf)
  }
}
impl Write for FaultyFile {
  fn write(&mut self, buf: &[u8]) -> std::io::Result<usize> {
    if self.is_wal && self.faults.fail_wal_write.swap(false, Ordering::SeqCst) {
      self.faults.log.push("FAULT wal write".into());
      return Err(std::io::Error::new(std::io::ErrorKind::Other, "injected wal write failure"));
    }
    self.inner.write(buf)
  }
  fn flush(&mut self) -> std::io::Result<()> {
    self.inner.flush()
  }
}
impl Seek for FaultyFile {
  fn seek(&mut self, pos: SeekFrom) -> std::io::Result<u64> {
    self.inner.seek(pos)
  }
}
impl StorageFile for FaultyFile {
  fn set_len(&mut self, len: u64) -> Result<()> {
    if self.is_wal && self.faults.fail_wal_set_len.swap(false, Ordering::SeqCst) {
      self.faults.log.push("FAULT wal set_len".into());
      return Err(anyhow!("injected wal set_len failure"));
    }
    self.inner.set_len(len)
  }
  fn sync_all(&mut self) -> Result<()> {
    self.inner.sync_all()
  }
}

impl FaultyStorage {
  fn wrap(&self, path: &Path, f: DynFile) -> DynFile {
    Box::new(FaultyFile {
      inner: f,
      is_wal: path.ends_with("wal.log"),
      faults: self.faults.clone(),
    })
  }
}

impl Storage for FaultyStorage {
  fn root(&self) -> &Path {
    self.inner.root()
  }
  fn ensure_dir(&self, path: &Path) -> Result<()> {
    self.inner.ensure_dir(path)
  }
  fn exists(&self, path: &Path) -> bool {
    self.inner.exists(path)
  }
  fn open_read(&self, path: &Path) -> Result<DynFile> {
    self.inner.open_read(path)
  }
  fn open_write(&self, path: &Path) -> Result<DynFile> {
    let f = self.inner.open_write(path)?;
    Ok(self.wrap(path, f))
  }
  fn open_append(&self, path: &Path) -> Result<DynFile> {
    let f = self.inner.open_append(path)?;
    Ok(self.wrap(path, f))
  }
  fn read_to_end(&self, path: &Path) -> Result<Vec<u8>> {
    self.inner.read_to_end(path)
  }
  fn write_all(&self, path: &Path, data: &[u8]) -> Result<()> {
    self.inner.write_all(path, data)
  }
  fn atomic_write(&self, path: &Path, data: &[u8]) -> Result<()> {
    if path.ends_with("MANIFEST.json") {
      let pass = self.faults.manifest_pass.load(Ordering::SeqCst);
      if pass > 0 {
        self.faults.manifest_pass.store(pass - 1, Ordering::SeqCst);
      } else {
        let n = self.faults.manifest_failures.load(Ordering::SeqCst);
        if n > 0 {
          self.faults.manifest_failures.store(n - 1, Ordering::SeqCst);
          self.faults.log.push("FAULT manifest atomic_write".into());
          return Err(anyhow!("injected manifest write failure"));
        }
      }
    }
    self.inner.atomic_write(path, data)
  }
  fn remove(&self, path: &Path) -> Result<()> {
    self.inner.remove(path)
  }
  fn remove_dir_all(&self, path: &Path) -> Result<()> {
    self.inner.remove_dir_all(path)
  }
}

fn opts(path: &Path) -> IndexOptions {
  IndexOptions {
    path: path.to_path_buf(),
    create_if_missing: false,
    enable_positions: true,
    bm25_k1: 1.2,
    bm25_b: 0.75,
    storage: StorageType::InMemory,
    #[cfg(feature = "vectors")]
    vector_defaults: None,
  }
}

fn doc(id: &str, body: &str) -> Document {
  Document {
    fields: [
      ("_id".to_string(), serde_json::json!(id)),
      ("body".to_string(), serde_json::json!(body)),
    ]
    .into_iter()
    .collect(),
  }
}

fn match_all_req() -> SearchRequest {
  serde_json::from_value(serde_json::json!({
    "query": {"type": "match_all"},
    "limit": 100,
    "return_stored": true,
    "highlight_field": null
  }))
  .unwrap()
}

fn live_ids(idx: &Index) -> Result<Vec<String>> {
  let reader = idx.reader()?;
  let res = reader.search(&match_all_req())?;
  let mut ids: Vec<String> = res.hits.iter().map(|h| h.doc_id.clone()).collect();
  ids.sort();
  Ok(ids)
}

fn setup() -> (PathBuf, Arc<FaultyStorage>, Arc<Faults>, Index) {
  let root = PathBuf::from("/x7mem");
  let faults = Arc::new(Faults::default());
  let storage = Arc::new(FaultyStorage {
    inner: InMemoryStorage::new(root.clone()),
    faults: faults.clone(),
  });
  let idx = Index::create_with_storage(
    &root,
    Schema::default_text_body(),
    opts(&root),
    storage.clone(),
  )
  .unwrap();
  {
    let mut w = idx.writer().unwrap();
    w.add_document(&doc("a", "alpha first")).unwrap();
    w.commit().unwrap();
  }
  (root, storage, faults, idx)
}

/// C03, double fault: the commit marker append fails, then the manifest rollback fails.
/// The error branch still deletes the new segment's files, while the manifest that is on
/// "disk" is the NEW one, which names that segment.
#[test]
fn double_fault_leaves_manifest_naming_deleted_segment() {
  let (root, storage, faults, idx) = setup();
  assert_eq!(live_ids(&idx).unwrap(), vec!["a".to_string()]);

  let mut w = idx.writer().unwrap();
  w.add_document(&doc("b", "beta second")).unwrap();
  // fault 1: the append of the commit marker (first wal write after this point)
  faults.fail_wal_write.store(true, Ordering::SeqCst);
  // fault 2: let the store of the new manifest through, fail the store of the old one
  faults.manifest_pass.store(1, Ordering::SeqCst);
  faults.manifest_failures.store(1, Ordering::SeqCst);
  let res = w.commit();
  assert!(res.is_err(), "commit must report the failure");
  eprintln!("faults: {:?}", faults.log.0.lock().unwrap());
  assert_eq!(faults.log.0.lock().unwrap().len(), 2, "exactly two faults injected");

  // the same process still sees the old contents (in-memory manifest was not published)
  assert_eq!(live_ids(&idx).unwrap(), vec!["a".to_string()]);

  // what is on storage now: every file the stored manifest names must exist
  let manifest =
    searchlite_core::Manifest::load(storage.as_ref(), &root.join("MANIFEST.json")).unwrap();
  let mut missing = Vec::new();
  for seg in manifest.segments.iter() {
    for p in [
      &seg.paths.terms,
      &seg.paths.postings,
      &seg.paths.docstore,
      &seg.paths.fast,
      &seg.paths.meta,
    ] {
      if !storage.exists(Path::new(p)) {
        missing.push(p.clone());
      }
    }
  }
  // reopen from the same storage with healthy calls
  let reopened = Index::open_with_storage(opts(&root), storage.clone());
  let reopened_ids = reopened.and_then(|i| live_ids(&i));
  eprintln!("missing files: {missing:?}");
  eprintln!("reopen result: {reopened_ids:?}");
  assert!(
    missing.is_empty(),
    "stored manifest names {} segment files that were deleted: {:?}",
    missing.len(),
    missing
  );
  let ids = reopened_ids.expect("index must be openable and searchable after two faults");
  assert!(ids == vec!["a".to_string()] || ids == vec!["a".to_string(), "b".to_string()]);
}

/// C03, single fault: the log truncation after a fully applied commit fails.
/// commit() returns Err although the commit is published and durable.
#[test]
fn single_fault_in_final_wal_truncate_reports_error_for_applied_commit() {
  let (root, storage, faults, idx) = setup();
  let mut w = idx.writer().unwrap();
  w.add_document(&doc("b", "beta second")).unwrap();
  faults.fail_wal_set_len.store(true, Ordering::SeqCst);
  let res = w.commit();
  eprintln!("commit result: {res:?}; faults: {:?}", faults.log.0.lock().unwrap());
  assert_eq!(faults.log.0.lock().unwrap().len(), 1);
  let now = live_ids(&idx).unwrap();
  let reopened = Index::open_with_storage(opts(&root), storage.clone()).unwrap();
  let disk = live_ids(&reopened).unwrap();
  eprintln!("same index sees {now:?}, reopened sees {disk:?}");
  // The property: Err => contents unchanged; Ok => fully applied.
  match res {
    Ok(()) => {
      assert_eq!(now, vec!["a".to_string(), "b".to_string()]);
      assert_eq!(disk, vec!["a".to_string(), "b".to_string()]);
    }
    Err(e) => {
      assert_eq!(
        (now.clone(), disk.clone()),
        (vec!["a".to_string()], vec!["a".to_string()]),
        "commit returned Err({e}) but the committed contents changed"
      );
    }
  }
}
