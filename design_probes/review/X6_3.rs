// C10: a hit's score is BM25 combined through the query tree. A nested clause that does not
// match a document contributes nothing to that document's score.
use searchlite_core::api::builder::IndexBuilder;
use searchlite_core::api::types::{Document, IndexOptions, Schema, SearchRequest, StorageType};
use serde_json::{json, Value};

fn doc(id: &str, body: &str) -> Document {
  let mut map = std::collections::BTreeMap::new();
  map.insert("_id".to_string(), json!(id));
  map.insert("body".to_string(), json!(body));
  Document { fields: map }
}

fn request(query: Value, execution: &str) -> SearchRequest {
  serde_json::from_value(json!({
    "query": query,
    "limit": 10,
    "return_hits": true,
    "return_stored": false,
    "highlight_field": null,
    "execution": execution,
  }))
  .expect("request")
}

#[test]
fn unmatched_nested_clause_adds_nothing_to_the_score() {
  let tmp = tempfile::tempdir().unwrap();
  let path = tmp.path().to_path_buf();
  let opts = IndexOptions {
    path: path.clone(),
    create_if_missing: true,
    enable_positions: true,
    bm25_k1: 1.2,
    bm25_b: 0.75,
    storage: StorageType::Filesystem,
    #[cfg(feature = "vectors")]
    vector_defaults: None,
  };
  let idx = IndexBuilder::create(&path, Schema::default_text_body(), opts).expect("create index");
  let mut writer = idx.writer().expect("writer");
  // No document holds both `alpha` and `beta`: the clause must[alpha, beta] matches nothing.
  for d in [
    doc("d0", "gamma"),
    doc("d1", "gamma alpha filler filler"),
    doc("d2", "beta filler"),
    doc("d3", "filler filler"),
  ] {
    writer.add_document(&d).unwrap();
  }
  writer.commit().unwrap();
  let reader = idx.reader().unwrap();

  let nested = json!({
    "type": "bool",
    "should": [
      {"type": "bool", "must": [
        {"type": "term", "field": "body", "value": "alpha"},
        {"type": "term", "field": "body", "value": "beta"}
      ]},
      {"type": "term", "field": "body", "value": "gamma"}
    ]
  });
  let plain = json!({"type": "term", "field": "body", "value": "gamma"});

  for execution in ["bm25", "wand"] {
    let reference = reader.search(&request(plain.clone(), execution)).unwrap();
    let observed = reader.search(&request(nested.clone(), execution)).unwrap();
    let r: Vec<(String, f32)> = reference.hits.iter().map(|h| (h.doc_id.clone(), h.score)).collect();
    let o: Vec<(String, f32)> = observed.hits.iter().map(|h| (h.doc_id.clone(), h.score)).collect();
    println!("{execution}: term gamma                         -> {r:?}");
    println!("{execution}: should[must[alpha,beta], gamma]     -> {o:?}");
    // Same matched set: only the gamma clause can match.
    let mut r_ids: Vec<&String> = r.iter().map(|x| &x.0).collect();
    let mut o_ids: Vec<&String> = o.iter().map(|x| &x.0).collect();
    r_ids.sort();
    o_ids.sort();
    assert_eq!(r_ids, o_ids, "same matched documents");
    // d0 ("gamma", the shorter text) is the better BM25 match for gamma.
    assert_eq!(r[0].0, "d0");
    assert_eq!(
      o, r,
      "{execution}: the clause must[alpha, beta] matches no document, so it contributes no score"
    );
  }
}
