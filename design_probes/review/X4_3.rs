use std::collections::{BTreeMap, BTreeSet};
use std::path::Path;

use searchlite_core::api::types::{
  Document, ExecutionStrategy, IndexOptions, Query, QueryNode, Schema, SearchRequest, StorageType,
};
use searchlite_core::api::Index;
use serde_json::json;

#[allow(dead_code)]
fn doc(id: &str, body: &str) -> Document {
  let mut map = BTreeMap::new();
  map.insert("_id".to_string(), json!(id));
  map.insert("body".to_string(), json!(body));
  Document { fields: map }
}

fn opts(path: &Path) -> IndexOptions {
  IndexOptions {
    path: path.to_path_buf(),
    create_if_missing: false,
    enable_positions: true,
    bm25_k1: 1.2,
    bm25_b: 0.75,
    storage: StorageType::Filesystem,
    #[cfg(feature = "vectors")]
    vector_defaults: None,
  }
}

fn match_all() -> SearchRequest {
  SearchRequest {
    query: Query::Node(QueryNode::MatchAll { boost: None }),
    fields: None,
    filter: None,
    limit: 1000,
    return_hits: true,
    candidate_size: None,
    sort: Vec::new(),
    cursor: None,
    execution: ExecutionStrategy::Wand,
    bmw_block_size: None,
    fuzzy: None,
    #[cfg(feature = "vectors")]
    vector_query: None,
    #[cfg(feature = "vectors")]
    vector_filter: None,
    return_stored: true,
    highlight_field: None,
    highlight: None,
    collapse: None,
    aggs: BTreeMap::new(),
    suggest: BTreeMap::new(),
    rescore: None,
    explain: false,
    profile: false,
  }
}

/// (id, body) of every document a fresh reader returns for match_all.
fn contents(idx: &Index) -> anyhow::Result<Vec<(String, String)>> {
  let reader = idx.reader()?;
  let res = reader.search(&match_all())?;
  let mut out: Vec<(String, String)> = res
    .hits
    .iter()
    .map(|h| {
      let body = h
        .fields
        .as_ref()
        .and_then(|f| f.get("body"))
        .map(|v| v.to_string())
        .unwrap_or_default();
      (h.doc_id.clone(), body)
    })
    .collect();
  out.sort();
  Ok(out)
}

#[allow(dead_code)]
fn ids(idx: &Index) -> BTreeSet<String> {
  contents(idx).unwrap().into_iter().map(|(id, _)| id).collect()
}

fn flip_first_digit_after(manifest: &mut [u8], key: &str, xor: u8) -> (usize, u8, u8) {
  let text = String::from_utf8(manifest.to_vec()).unwrap();
  let start = text.find(key).unwrap_or_else(|| panic!("{key} not in manifest"));
  let rel = text[start + key.len()..]
    .find(|c: char| c.is_ascii_digit())
    .unwrap();
  let pos = start + key.len() + rel;
  let old = manifest[pos];
  manifest[pos] ^= xor;
  (pos, old, manifest[pos])
}

/// C17: one altered byte in the committed MANIFEST.json (the ordinal inside `deleted_docs`)
/// is not detected: open and search succeed and return a different set of documents.
#[test]
fn manifest_deleted_docs_bit_flip_changes_results_silently() {
  let tmp = tempfile::tempdir().unwrap();
  let path = tmp.path().to_path_buf();
  {
    let idx = Index::create(&path, Schema::default_text_body(), opts(&path)).unwrap();
    let mut w = idx.writer().unwrap();
    w.add_document(&doc("1", "one")).unwrap();
    w.add_document(&doc("2", "two")).unwrap();
    w.add_document(&doc("3", "three")).unwrap();
    w.commit().unwrap();
    w.delete_document("1").unwrap();
    w.commit().unwrap();
  }
  let before = {
    let idx = Index::open(opts(&path)).unwrap();
    contents(&idx).unwrap()
  };
  assert_eq!(before.iter().map(|(i, _)| i.as_str()).collect::<Vec<_>>(), vec!["2", "3"]);

  let mpath = path.join("MANIFEST.json");
  let mut bytes = std::fs::read(&mpath).unwrap();
  let (pos, old, new) = flip_first_digit_after(&mut bytes, "\"deleted_docs\"", 0x01);
  eprintln!("flipped manifest byte {pos}: {:?} -> {:?}", old as char, new as char);
  std::fs::write(&mpath, &bytes).unwrap();

  let after = Index::open(opts(&path)).and_then(|idx| contents(&idx));
  match after {
    Err(e) => eprintln!("detected: {e:#}"),
    Ok(after) => assert_eq!(
      after, before,
      "one flipped byte in MANIFEST.json silently changed the search results"
    ),
  }
}

/// Second instance: the `doc_count` of a segment (3 -> 2).
#[test]
fn manifest_doc_count_bit_flip_changes_results_silently() {
  let tmp = tempfile::tempdir().unwrap();
  let path = tmp.path().to_path_buf();
  {
    let idx = Index::create(&path, Schema::default_text_body(), opts(&path)).unwrap();
    let mut w = idx.writer().unwrap();
    w.add_document(&doc("1", "one")).unwrap();
    w.add_document(&doc("2", "two")).unwrap();
    w.add_document(&doc("3", "three")).unwrap();
    w.commit().unwrap();
  }
  let before = {
    let idx = Index::open(opts(&path)).unwrap();
    contents(&idx).unwrap()
  };
  assert_eq!(before.len(), 3);
  let mpath = path.join("MANIFEST.json");
  let mut bytes = std::fs::read(&mpath).unwrap();
  let (pos, old, new) = flip_first_digit_after(&mut bytes, "\"doc_count\"", 0x01);
  eprintln!("flipped manifest byte {pos}: {:?} -> {:?}", old as char, new as char);
  std::fs::write(&mpath, &bytes).unwrap();
  let after = Index::open(opts(&path)).and_then(|idx| contents(&idx));
  match after {
    Err(e) => eprintln!("detected: {e:#}"),
    Ok(after) => assert_eq!(
      after, before,
      "one flipped byte in MANIFEST.json silently changed the search results"
    ),
  }
}
