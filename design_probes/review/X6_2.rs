// C18: collapse must return the best hit of each group, groups in the order of their best hits,
// and inner hits drawn from the whole group.
use searchlite_core::api::builder::IndexBuilder;
use searchlite_core::api::types::{
  Document, IndexOptions, KeywordField, NumericField, Schema, SearchRequest, StorageType,
};
use serde_json::{json, Value};

fn doc(id: &str, fields: Vec<(&str, Value)>) -> Document {
  let mut map = std::collections::BTreeMap::new();
  map.insert("_id".to_string(), json!(id));
  for (k, v) in fields {
    map.insert(k.to_string(), v);
  }
  Document { fields: map }
}

fn request(v: Value) -> SearchRequest {
  let mut base = json!({
    "query": "rust",
    "limit": 10,
    "return_hits": true,
    "return_stored": false,
    "highlight_field": null,
    "execution": "bm25",
  });
  for (k, val) in v.as_object().unwrap() {
    base[k] = val.clone();
  }
  serde_json::from_value(base).expect("request")
}

fn build(segments: &[&[(&str, &str, i64)]]) -> (tempfile::TempDir, searchlite_core::api::Index) {
  let tmp = tempfile::tempdir().unwrap();
  let path = tmp.path().to_path_buf();
  let mut schema = Schema::default_text_body();
  schema.keyword_fields.push(KeywordField {
    name: "grp".into(),
    stored: true,
    indexed: true,
    fast: true,
    nullable: false,
  });
  schema.numeric_fields.push(NumericField {
    name: "rank".into(),
    i64: true,
    fast: true,
    stored: true,
    nullable: false,
  });
  let opts = IndexOptions {
    path: path.clone(),
    create_if_missing: true,
    enable_positions: true,
    bm25_k1: 1.2,
    bm25_b: 0.75,
    storage: StorageType::Filesystem,
    #[cfg(feature = "vectors")]
    vector_defaults: None,
  };
  let idx = IndexBuilder::create(&path, schema, opts).expect("create index");
  let mut writer = idx.writer().expect("writer");
  for seg in segments {
    for (id, grp, rank) in seg.iter() {
      writer
        .add_document(&doc(
          id,
          vec![("body", json!("rust")), ("grp", json!(grp)), ("rank", json!(rank))],
        ))
        .unwrap();
    }
    writer.commit().unwrap();
  }
  (tmp, idx)
}

fn ids(hits: &[searchlite_core::api::Hit]) -> Vec<String> {
  hits.iter().map(|h| h.doc_id.clone()).collect()
}

// Three groups. Under `rank asc` the four best documents all belong to group "a".
const CORPUS: &[(&str, &str, i64)] = &[
  ("a1", "a", 1),
  ("a2", "a", 2),
  ("a3", "a", 3),
  ("a4", "a", 4),
  ("b1", "b", 5),
  ("c1", "c", 6),
  ("a5", "a", 7),
];

#[test]
fn collapse_page_is_filled_with_groups_beyond_the_candidate_window() {
  let (_tmp, idx) = build(&[CORPUS]);
  let reader = idx.reader().unwrap();
  let collapse = json!({"field": "grp", "inner_hits": {"size": 10, "sort": [{"field": "rank", "order": "desc"}]}});

  // Reference: a limit that covers the corpus.
  let full = reader
    .search(&request(json!({
      "limit": 10,
      "sort": [{"field": "rank", "order": "asc"}],
      "collapse": collapse.clone(),
    })))
    .unwrap();
  assert_eq!(ids(&full.hits), vec!["a1", "b1", "c1"]);
  assert_eq!(full.total_groups, Some(3));
  let full_inner = ids(full.hits[0].inner_hits.as_ref().unwrap());
  assert_eq!(full_inner, vec!["a5", "a4", "a3", "a2"]);

  // Same request, two groups asked for.
  let page = reader
    .search(&request(json!({
      "limit": 2,
      "sort": [{"field": "rank", "order": "asc"}],
      "collapse": collapse.clone(),
    })))
    .unwrap();
  println!(
    "limit=2: hits={:?} total_groups={:?} inner(a)={:?}",
    ids(&page.hits),
    page.total_groups,
    page.hits[0].inner_hits.as_ref().map(|h| ids(h))
  );
  // Inner hits of group a, ordered by rank desc: a5 is its best inner hit.
  assert_eq!(
    page.hits[0].inner_hits.as_ref().map(|h| ids(h)),
    Some(full_inner.clone()),
    "inner hits must be the group's members under the inner sort, whatever the page size"
  );
  assert_eq!(
    ids(&page.hits),
    vec!["a1", "b1"],
    "the two best groups are a (best hit a1) and b (best hit b1)"
  );
}

#[test]
fn collapse_page_is_filled_across_segments() {
  let (_tmp, idx) = build(&[&CORPUS[..3], &CORPUS[3..]]);
  let reader = idx.reader().unwrap();
  let page = reader
    .search(&request(json!({
      "limit": 2,
      "sort": [{"field": "rank", "order": "asc"}],
      "collapse": {"field": "grp"},
    })))
    .unwrap();
  println!("two segments, limit=2: hits={:?} total_groups={:?}", ids(&page.hits), page.total_groups);
  assert_eq!(ids(&page.hits), vec!["a1", "b1"]);
}

#[test]
fn collapse_score_sort_default() {
  // Default sort (score desc): all documents tie, order is segment/doc order, same shape.
  let (_tmp, idx) = build(&[CORPUS]);
  let reader = idx.reader().unwrap();
  let page = reader
    .search(&request(json!({"limit": 2, "collapse": {"field": "grp"}})))
    .unwrap();
  println!("score sort, limit=2: hits={:?} total_groups={:?}", ids(&page.hits), page.total_groups);
  assert_eq!(ids(&page.hits), vec!["a1", "b1"]);
}
