use std::collections::BTreeMap;

use searchlite_core::api::types::{Document, IndexOptions, Schema, SearchRequest, StorageType};
use searchlite_core::api::Index;
use serde_json::json;

fn doc(id: &str, fields: Vec<(&str, serde_json::Value)>) -> Document {
  let mut map = BTreeMap::new();
  map.insert("_id".to_string(), json!(id));
  for (k, v) in fields {
    map.insert(k.to_string(), v);
  }
  Document { fields: map }
}

fn base_options(path: &std::path::Path) -> IndexOptions {
  IndexOptions {
    path: path.to_path_buf(),
    create_if_missing: true,
    enable_positions: true,
    bm25_k1: 0.9,
    bm25_b: 0.4,
    storage: StorageType::Filesystem,
    #[cfg(feature = "vectors")]
    vector_defaults: None,
  }
}

fn req(v: serde_json::Value) -> SearchRequest {
  serde_json::from_value(v).unwrap()
}

fn suggest(idx: &Index) -> Vec<(String, f32, u64)> {
  let reader = idx.reader().unwrap();
  let r = reader
    .search(&req(json!({
      "query": {"type": "match_all"},
      "limit": 1,
      "return_stored": false,
      "highlight_field": null,
      "suggest": {"s": {"type": "completion", "field": "body", "prefix": "abcde", "size": 5,
        "fuzzy": {"max_edits": 2, "prefix_length": 1, "max_expansions": 50, "min_length": 1}}}
    })))
    .unwrap();
  r.suggest["s"]
    .options
    .iter()
    .map(|o| (o.text.clone(), o.score, o.doc_freq))
    .collect()
}

#[test]
fn fuzzy_completion_layout_independent() {
  let mut mismatches = Vec::new();
  for n in 2..=12usize {
    for first in 1..n {
      // layout 1: all n docs in one segment; layout 2: `first` docs then `n-first` docs
      let t1 = tempfile::tempdir().unwrap();
      let p1 = t1.path().to_path_buf();
      let i1 = Index::create(&p1, Schema::default_text_body(), base_options(&p1)).unwrap();
      {
        let mut w = i1.writer().unwrap();
        for d in 0..n {
          w.add_document(&doc(&format!("d{d}"), vec![("body", json!("abcxy"))]))
            .unwrap();
        }
        w.commit().unwrap();
      }
      let t2 = tempfile::tempdir().unwrap();
      let p2 = t2.path().to_path_buf();
      let i2 = Index::create(&p2, Schema::default_text_body(), base_options(&p2)).unwrap();
      {
        let mut w = i2.writer().unwrap();
        for d in 0..first {
          w.add_document(&doc(&format!("d{d}"), vec![("body", json!("abcxy"))]))
            .unwrap();
        }
        w.commit().unwrap();
        for d in first..n {
          w.add_document(&doc(&format!("d{d}"), vec![("body", json!("abcxy"))]))
            .unwrap();
        }
        w.commit().unwrap();
      }
      let a = suggest(&i1);
      let b = suggest(&i2);
      if a != b {
        mismatches.push((n, first, a, b));
      }
    }
  }
  for m in mismatches.iter().take(5) {
    println!("layout mismatch n={} split={} one-seg={:?} two-seg={:?}", m.0, m.1, m.2, m.3);
  }
  assert!(mismatches.is_empty(), "{} layout mismatches", mismatches.len());
}


fn suggest_top(idx: &Index, size: usize) -> Vec<(String, f32, u64)> {
  let reader = idx.reader().unwrap();
  let r = reader
    .search(&req(json!({
      "query": {"type": "match_all"},
      "limit": 1,
      "return_stored": false,
      "highlight_field": null,
      "suggest": {"s": {"type": "completion", "field": "body", "prefix": "abcde", "size": size,
        "fuzzy": {"max_edits": 2, "prefix_length": 1, "max_expansions": 50, "min_length": 1}}}
    })))
    .unwrap();
  r.suggest["s"]
    .options
    .iter()
    .map(|o| (o.text.clone(), o.score, o.doc_freq))
    .collect()
}

/// Same eleven documents, no deletions, two candidate terms with the same document frequency (9)
/// and the same edit distance (2) from the prefix. Only the segmentation differs.
#[test]
fn fuzzy_completion_order_depends_on_layout() {
  let bodies: Vec<&str> = vec![
    "abcxy", "abcxy", // d0, d1
    "abcxy abcaa", "abcxy abcaa", "abcxy abcaa", "abcxy abcaa", "abcxy abcaa", "abcxy abcaa",
    "abcxy abcaa", // d2..d8
    "abcaa", "abcaa", // d9, d10
  ];
  let build = |splits: &[usize]| -> (tempfile::TempDir, Index) {
    let t = tempfile::tempdir().unwrap();
    let p = t.path().to_path_buf();
    let i = Index::create(&p, Schema::default_text_body(), base_options(&p)).unwrap();
    {
      let mut w = i.writer().unwrap();
      let mut start = 0usize;
      for end in splits.iter().copied().chain(std::iter::once(bodies.len())) {
        for d in start..end {
          w.add_document(&doc(&format!("d{d:02}"), vec![("body", json!(bodies[d]))]))
            .unwrap();
        }
        if end > start {
          w.commit().unwrap();
        }
        start = end;
      }
    }
    (t, i)
  };
  let (_t1, one) = build(&[]);
  let (_t2, two) = build(&[2]);
  assert_eq!(one.manifest().segments.len(), 1);
  assert_eq!(two.manifest().segments.len(), 2);
  let a = suggest_top(&one, 5);
  let b = suggest_top(&two, 5);
  println!("one segment : {:?}", a);
  println!("two segments: {:?}", b);
  let a1 = suggest_top(&one, 1);
  let b1 = suggest_top(&two, 1);
  println!("size=1 one segment: {:?}  two segments: {:?}", a1, b1);
  assert_eq!(a, b, "suggestions differ between segment layouts");
  assert_eq!(a1, b1, "top suggestion differs between segment layouts");
}
