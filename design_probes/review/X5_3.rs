// C19: hits rejected by the rescore query's min_score are dropped from the window, while hits
// after the window keep their original scores and relative order.
//
// The hits that should move up to fill the page are not there: only `limit + 1` candidates were
// collected before rescoring, so a page whose window hits were dropped comes back short and
// without a cursor although more matching documents exist.
use std::collections::BTreeMap;

use searchlite_core::api::types::{
  Document, IndexOptions, NumericField, Schema, SearchRequest, StorageType,
};
use searchlite_core::api::Index;
use serde_json::json;

fn doc(id: &str, rank: f64) -> Document {
  let mut map = BTreeMap::new();
  map.insert("_id".to_string(), json!(id));
  map.insert("body".to_string(), json!("plain text"));
  map.insert("rank".to_string(), json!(rank));
  Document { fields: map }
}

fn request(limit: usize, rescore: bool) -> SearchRequest {
  let mut req = json!({
    "query": {
      "type": "function_score",
      "query": {"type": "match_all"},
      "functions": [{"type": "field_value_factor", "field": "rank"}],
      "boost_mode": "replace"
    },
    "limit": limit,
    "return_stored": false,
    "highlight_field": null
  });
  if rescore {
    // Rescore score == rank; min_score 5 rejects every document that is rescored.
    req["rescore"] = json!({
      "window_size": 2,
      "query": {
        "type": "function_score",
        "query": {"type": "match_all"},
        "functions": [{"type": "field_value_factor", "field": "rank"}],
        "boost_mode": "replace",
        "min_score": 5.0
      },
      "score_mode": "total"
    });
  }
  serde_json::from_value(req).unwrap()
}

#[test]
fn dropped_window_hits_leave_the_page_short() {
  let tmp = tempfile::tempdir().unwrap();
  let path = tmp.path().to_path_buf();
  let mut schema = Schema::default_text_body();
  schema.numeric_fields.push(NumericField {
    name: "rank".into(),
    i64: false,
    fast: true,
    stored: true,
    nullable: false,
  });
  let opts = IndexOptions {
    path: path.clone(),
    create_if_missing: true,
    enable_positions: true,
    bm25_k1: 0.9,
    bm25_b: 0.4,
    storage: StorageType::Filesystem,
    #[cfg(feature = "vectors")]
    vector_defaults: None,
  };
  let idx = Index::create(&path, schema, opts).unwrap();
  {
    let mut w = idx.writer().unwrap();
    for (id, rank) in [("d1", 0.9), ("d2", 0.8), ("d3", 0.7), ("d4", 0.6), ("d5", 0.5)] {
      w.add_document(&doc(id, rank)).unwrap();
    }
    w.commit().unwrap();
  }
  let reader = idx.reader().unwrap();
  let hits = |req: &SearchRequest| -> (Vec<(String, f32)>, bool) {
    let resp = reader.search(req).unwrap();
    (
      resp.hits.iter().map(|h| (h.doc_id.clone(), h.score)).collect(),
      resp.next_cursor.is_some(),
    )
  };
  let (initial, _) = hits(&request(10, false));
  assert_eq!(initial.len(), 5);
  // Oracle: whole ranking, window of 2 dropped, the rest untouched.
  let (wide, _) = hits(&request(10, true));
  assert_eq!(wide, initial[2..].to_vec(), "oracle run");
  let (narrow, has_cursor) = hits(&request(2, true));
  assert_eq!(
    narrow,
    wide[..2].to_vec(),
    "limit=2: the two hits after the dropped window are d3 and d4 (next_cursor present: {has_cursor})"
  );
}
