// C20: turning on `explain` must not change hit scores.
//
// A bool query whose only scored clause expands to no index term at all (a prefix that matches
// nothing, next to a match_all) is answered by `scan_segment`.  Without explain every hit gets
// the default score 1.0; with explain the score tree (a bare leaf) is evaluated over an empty
// leaf buffer and every hit gets 0.0.
use std::collections::BTreeMap;

use searchlite_core::api::types::{Document, IndexOptions, Schema, SearchRequest, StorageType};
use searchlite_core::api::Index;
use serde_json::json;

fn doc(id: &str, fields: Vec<(&str, serde_json::Value)>) -> Document {
  let mut map = BTreeMap::new();
  map.insert("_id".to_string(), json!(id));
  for (k, v) in fields {
    map.insert(k.to_string(), v);
  }
  Document { fields: map }
}

fn options(path: &std::path::Path) -> IndexOptions {
  IndexOptions {
    path: path.to_path_buf(),
    create_if_missing: true,
    enable_positions: true,
    bm25_k1: 0.9,
    bm25_b: 0.4,
    storage: StorageType::Filesystem,
    #[cfg(feature = "vectors")]
    vector_defaults: None,
  }
}

fn request(explain: bool) -> SearchRequest {
  serde_json::from_value(json!({
    "query": {
      "type": "bool",
      "must": [{"type": "match_all"}],
      "should": [{"type": "prefix", "field": "body", "value": "zzz"}]
    },
    "limit": 10,
    "return_stored": false,
    "highlight_field": null,
    "explain": explain
  }))
  .unwrap()
}

#[test]
fn explain_changes_scores_of_a_scanned_query() {
  let tmp = tempfile::tempdir().unwrap();
  let path = tmp.path().to_path_buf();
  let idx = Index::create(&path, Schema::default_text_body(), options(&path)).unwrap();
  {
    let mut writer = idx.writer().unwrap();
    writer
      .add_document(&doc("a", vec![("body", json!("rust alpha"))]))
      .unwrap();
    writer
      .add_document(&doc("b", vec![("body", json!("rust beta"))]))
      .unwrap();
    writer.commit().unwrap();
  }
  let reader = idx.reader().unwrap();
  let plain = reader.search(&request(false)).unwrap();
  let explained = reader.search(&request(true)).unwrap();
  let plain_hits: Vec<(String, f32)> = plain
    .hits
    .iter()
    .map(|h| (h.doc_id.clone(), h.score))
    .collect();
  let explained_hits: Vec<(String, f32)> = explained
    .hits
    .iter()
    .map(|h| (h.doc_id.clone(), h.score))
    .collect();
  assert_eq!(plain_hits.len(), 2);
  assert_eq!(
    plain_hits, explained_hits,
    "explain changed the scores: plain={plain_hits:?} explained={explained_hits:?}"
  );
}
