// C19: rescoring applies to the first `window_size` hits of the initial ranking.
//
// The list handed to `rescore_hits` is not the initial ranking: it is the top `limit + 1`
// hits (score-sorted search: the top `limit + 1` of EACH segment, concatenated and sorted).
// With `window_size > limit + 1` the window therefore (a) never reaches hits at ranks
// `limit + 2 ..= window_size`, and (b) with several segments contains hits that are NOT among
// the first `window_size` of the initial ranking.
//
// Oracle: the same request with a larger `limit` (so that the candidate list covers the whole
// window).  The window is defined on the initial ranking, so the first `limit` hits must not
// depend on `limit`.
use std::collections::BTreeMap;

use searchlite_core::api::types::{
  Document, IndexOptions, NumericField, Schema, SearchRequest, StorageType,
};
use searchlite_core::api::Index;
use serde_json::json;

fn doc(id: &str, body: &str, rank: f64) -> Document {
  let mut map = BTreeMap::new();
  map.insert("_id".to_string(), json!(id));
  map.insert("body".to_string(), json!(body));
  map.insert("rank".to_string(), json!(rank));
  Document { fields: map }
}

fn options(path: &std::path::Path) -> IndexOptions {
  IndexOptions {
    path: path.to_path_buf(),
    create_if_missing: true,
    enable_positions: true,
    bm25_k1: 0.9,
    bm25_b: 0.4,
    storage: StorageType::Filesystem,
    #[cfg(feature = "vectors")]
    vector_defaults: None,
  }
}

fn schema() -> Schema {
  let mut schema = Schema::default_text_body();
  schema.numeric_fields.push(NumericField {
    name: "rank".into(),
    i64: false,
    fast: true,
    stored: true,
    nullable: false,
  });
  schema
}

// Initial score of a document == its `rank` value; rescore adds BM25 of body:magic.
fn request(limit: usize, window: Option<usize>) -> SearchRequest {
  let mut req = json!({
    "query": {
      "type": "function_score",
      "query": {"type": "match_all"},
      "functions": [{"type": "field_value_factor", "field": "rank"}],
      "boost_mode": "replace"
    },
    "limit": limit,
    "return_stored": false,
    "highlight_field": null
  });
  if let Some(w) = window {
    req["rescore"] = json!({
      "window_size": w,
      "query": {"type": "term", "field": "body", "value": "magic"},
      "score_mode": "total"
    });
  }
  serde_json::from_value(req).unwrap()
}

fn ids(reader: &searchlite_core::api::IndexReader, req: &SearchRequest) -> Vec<(String, f32)> {
  reader
    .search(req)
    .unwrap()
    .hits
    .iter()
    .map(|h| (h.doc_id.clone(), h.score))
    .collect()
}

#[test]
fn single_segment_window_larger_than_limit_plus_one() {
  let tmp = tempfile::tempdir().unwrap();
  let path = tmp.path().to_path_buf();
  let idx = Index::create(&path, schema(), options(&path)).unwrap();
  {
    let mut w = idx.writer().unwrap();
    w.add_document(&doc("d1", "plain text one", 0.9)).unwrap();
    w.add_document(&doc("d2", "plain text two", 0.8)).unwrap();
    w.add_document(&doc("d3", "plain text three", 0.7)).unwrap();
    w.add_document(&doc("d4", "magic text four", 0.6)).unwrap();
    w.add_document(&doc("d5", "plain text five", 0.5)).unwrap();
    w.commit().unwrap();
  }
  let reader = idx.reader().unwrap();
  let initial = ids(&reader, &request(10, None));
  let initial_ids: Vec<&str> = initial.iter().map(|h| h.0.as_str()).collect();
  assert_eq!(initial_ids, vec!["d1", "d2", "d3", "d4", "d5"]);

  // d4 is the 4th hit of the initial ranking, inside a window of 4.
  let wide = ids(&reader, &request(10, Some(4)));
  assert_eq!(wide[0].0, "d4", "oracle run: {wide:?}");
  let narrow = ids(&reader, &request(2, Some(4)));
  assert_eq!(
    narrow,
    wide[..2].to_vec(),
    "limit=2 window=4 must be the first two hits of limit=10 window=4"
  );
}

#[test]
fn two_segments_window_is_not_a_prefix_of_the_initial_ranking() {
  let tmp = tempfile::tempdir().unwrap();
  let path = tmp.path().to_path_buf();
  let idx = Index::create(&path, schema(), options(&path)).unwrap();
  {
    let mut w = idx.writer().unwrap();
    w.add_document(&doc("a1", "plain text", 0.9)).unwrap();
    w.add_document(&doc("a2", "plain text", 0.8)).unwrap();
    w.add_document(&doc("a3", "plain text", 0.7)).unwrap();
    w.add_document(&doc("a4", "plain text", 0.6)).unwrap();
    w.commit().unwrap();
  }
  {
    let mut w = idx.writer().unwrap();
    w.add_document(&doc("b1", "plain text", 0.5)).unwrap();
    w.add_document(&doc("b2", "magic text", 0.4)).unwrap();
    w.add_document(&doc("b3", "plain text", 0.3)).unwrap();
    w.commit().unwrap();
  }
  let reader = idx.reader().unwrap();
  let initial = ids(&reader, &request(10, None));
  let initial_ids: Vec<&str> = initial.iter().map(|h| h.0.as_str()).collect();
  assert_eq!(initial_ids, vec!["a1", "a2", "a3", "a4", "b1", "b2", "b3"]);

  // b2 is the 6th hit of the initial ranking: a window of 5 must leave it alone.
  let wide = ids(&reader, &request(10, Some(5)));
  let wide_ids: Vec<&str> = wide.iter().map(|h| h.0.as_str()).collect();
  assert_eq!(
    wide_ids,
    vec!["a1", "a2", "a3", "a4", "b1", "b2", "b3"],
    "oracle run: {wide:?}"
  );
  let narrow = ids(&reader, &request(2, Some(5)));
  assert_eq!(
    narrow,
    wide[..2].to_vec(),
    "limit=2 window=5 rescored a hit outside the first five of the initial ranking"
  );
}
