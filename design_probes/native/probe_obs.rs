use std::collections::BTreeMap;
use searchlite_core::api::types::{
  Aggregation, Document, ExecutionStrategy, IndexOptions, KeywordField, Schema, SearchRequest, StorageType, TermsAggregation,
};
use searchlite_core::api::Index;
use serde_json::json;

fn doc(id: &str, fields: Vec<(&str, serde_json::Value)>) -> Document {
  let mut map = BTreeMap::new();
  map.insert("_id".to_string(), json!(id));
  for (k, v) in fields { map.insert(k.to_string(), v); }
  Document { fields: map }
}
fn req(query: &str) -> SearchRequest {
  SearchRequest {
    query: query.into(), fields: None, filter: None, limit: 1, return_hits: true, candidate_size: None,
    sort: Vec::new(), cursor: None, execution: ExecutionStrategy::Bm25, bmw_block_size: None, fuzzy: None,
    return_stored: true, highlight_field: None, highlight: None, collapse: None, aggs: BTreeMap::new(),
    suggest: BTreeMap::new(), rescore: None, explain: false, profile: false,
  }
}
fn opts(path: &std::path::Path) -> IndexOptions {
  IndexOptions { path: path.to_path_buf(), create_if_missing: true, enable_positions: true, bm25_k1: 0.9, bm25_b: 0.4, storage: StorageType::Filesystem }
}

#[test]
fn obs_c13_aggs_change_across_pages() {
  let tmp = tempfile::tempdir().unwrap();
  let mut schema = Schema::default_text_body();
  schema.keyword_fields.push(KeywordField { name: "lang".into(), stored: true, indexed: true, fast: true, nullable: false });
  let idx = Index::create(tmp.path(), schema, opts(tmp.path())).unwrap();
  let mut w = idx.writer().unwrap();
  for i in 0..3 { w.add_document(&doc(&format!("d{i}"), vec![("body", json!("rust rust")), ("lang", json!("en"))])).unwrap(); }
  w.commit().unwrap();
  let reader = idx.reader().unwrap();
  let mut r = req("rust");
  r.aggs.insert("langs".into(), Aggregation::Terms(Box::new(TermsAggregation { field: "lang".into(), size: Some(5), shard_size: None, min_doc_count: None, missing: None, sampling: None, aggs: BTreeMap::new() })));
  let p1 = reader.search(&r).unwrap();
  let mut r2 = r.clone(); r2.cursor = p1.next_cursor.clone();
  let p2 = reader.search(&r2).unwrap();
  let a1 = serde_json::to_string(&p1.aggregations).unwrap();
  let a2 = serde_json::to_string(&p2.aggregations).unwrap();
  println!("page1 aggs {a1}\npage2 aggs {a2}");
  assert_ne!(a1, a2, "observation: aggregations differ across pages");
}

#[test]
fn obs_c15_unknown_field_accepted_then_commit_fails() {
  let tmp = tempfile::tempdir().unwrap();
  let idx = Index::create(tmp.path(), Schema::default_text_body(), opts(tmp.path())).unwrap();
  let mut w = idx.writer().unwrap();
  let added = w.add_document(&doc("x", vec![("body", json!("a")), ("zzz", json!("unknown"))]));
  println!("add -> {:?}", added.as_ref().map_err(|e| e.to_string()));
  assert!(added.is_ok());
  let c = w.commit();
  println!("commit -> {:?}", c.as_ref().map_err(|e| e.to_string()));
  assert!(c.is_err());
}

#[test]
fn obs_c23_rollback_drops_earlier_queued() {
  let tmp = tempfile::tempdir().unwrap();
  let idx = Index::create(tmp.path(), Schema::default_text_body(), opts(tmp.path())).unwrap();
  { let mut w = idx.writer().unwrap(); w.add_document(&doc("a", vec![("body", json!("first"))])).unwrap(); }
  { let mut w = idx.writer().unwrap(); let bad = w.add_document(&doc("", vec![])); assert!(bad.is_err()); w.rollback().unwrap(); }
  { let mut w = idx.writer().unwrap(); w.commit().unwrap(); }
  let reader = idx.reader().unwrap();
  let mut r = req("first"); r.limit = 10;
  let res = reader.search(&r).unwrap();
  println!("hits after commit: {}", res.hits.len());
  assert_eq!(res.hits.len(), 0, "observation: acknowledged doc was dropped by a later request's rollback");
}

#[test]
fn obs_c28_manifest_paths_absolute() {
  let tmp = tempfile::tempdir().unwrap();
  let idx = Index::create(tmp.path(), Schema::default_text_body(), opts(tmp.path())).unwrap();
  let mut w = idx.writer().unwrap(); w.add_document(&doc("a", vec![("body", json!("x"))])).unwrap(); w.commit().unwrap();
  let m = idx.manifest();
  println!("terms path {}", m.segments[0].paths.terms);
  assert!(m.segments[0].paths.terms.starts_with(tmp.path().to_str().unwrap()));
}
