#!/usr/bin/env python3
"""prototype: extract Wal::replay slice from /repo and emit verus text"""
import re, sys, json
SRC='/repo/searchlite-core/src/index/wal.rs'
text=open(SRC).read()
lines=text.split('\n')

def find_fn(name):
    # returns (start_line_idx, end_line_idx) inclusive of the fn item, by brace matching
    pat=re.compile(r'^\s*(pub(\([a-z]+\))?\s+)?fn\s+'+re.escape(name)+r'\b')
    hits=[i for i,l in enumerate(lines) if pat.match(l)]
    assert len(hits)==1, (name,hits)
    i=hits[0]; depth=0; started=False
    for j in range(i,len(lines)):
        for ch in lines[j]:
            if ch=='{': depth+=1; started=True
            elif ch=='}': depth-=1
        if started and depth==0: return i,j
    raise SystemExit('unbalanced')

def slice_between(lo,hi,first_re,last_stmt_is_loop_starting_re):
    a=[k for k in range(lo,hi+1) if re.search(first_re,lines[k])]
    assert len(a)==1,a
    b=[k for k in range(lo,hi+1) if re.search(last_stmt_is_loop_starting_re,lines[k])]
    assert len(b)==1,b
    # extend b to the matching close of that statement's block
    depth=0; started=False
    for j in range(b[0],hi+1):
        for ch in lines[j]:
            if ch=='{': depth+=1; started=True
            elif ch=='}': depth-=1
        if started and depth==0: return a[0],j
    raise SystemExit('unbalanced slice')

lo,hi=find_fn('replay')
s,e=slice_between(lo,hi,r'let mut cursor = 0usize;',r'while cursor < data\.len\(\) \{')
body=lines[s:e+1]
log=[]
RULES=[
 ('R8a', r'serde_json::from_slice::<Document>\(([^)]*)\)', r'serde_json_from_slice_document(\1)'),
 ('R8b', r'std::str::from_utf8\(([^)]*)\)', r'str_from_utf8(\1)'),
 ('R5a', r'if checksum\.to_le_bytes\(\) != checksum_bytes \{', r'if crc_bytes_ne(checksum, checksum_bytes) {'),
]
out=[]
for k,l in enumerate(body):
    new=l
    for rid,pat,rep in RULES:
        n2=re.sub(pat,rep,new)
        if n2!=new: log.append({'rule':rid,'line':s+k+1,'before':new.strip(),'after':n2.strip()}); new=n2
    out.append(new)
# contract splice: loop ordinal 0 gets invariants
spec=json.load(open('spec.json'))
res=[]
loop_ord=0
ins=spec.get('inserts',{})
pending_end=[]  # (indent, loop_ord) stack for body_end
for l in out:
    m=re.match(r'^(\s*)while (.*) \{\s*$',l)
    if m:
        ind=m.group(1)
        if f'loop{loop_ord}.before' in ins: res.append(ins[f'loop{loop_ord}.before'])
        res.append(f"{ind}while {m.group(2)}")
        for clause,items in spec['loops'][str(loop_ord)].items():
            res.append(f"{ind}  {clause}")
            for it in items: res.append(f"{ind}    {it},")
        res.append(f"{ind}{{")
        if f'loop{loop_ord}.body_start' in ins: res.append(ins[f'loop{loop_ord}.body_start'])
        pending_end.append((ind,loop_ord))
        loop_ord+=1
    elif pending_end and l==pending_end[-1][0]+'}':
        ind,k=pending_end.pop()
        if f'loop{k}.body_end' in ins: res.append(ins[f'loop{k}.body_end'])
        res.append(l)
    else:
        res.append(l)
        for pat,txt in spec.get('after',{}).items():
            if re.search(pat,l): res.append(txt)
print(spec['prelude'])
print(f"pub fn replay_slice(data: &[u8]) -> (entries: Vec<WalEntry>)\n  ensures {spec['ensures']}\n{{")
print('\n'.join(res))
print("    entries\n}\n} // verus!\nfn main(){}")
json.dump(log,open('rewrite_log.json','w'),indent=1)
