use vstd::prelude::*;
use vstd::string::*;
verus! {

global size_of usize == 8;

pub struct Error;
pub type Result<T> = core::result::Result<T, Error>;

pub open spec fn cont(b: u8) -> bool { b & 0x80 != 0 }

// position of first byte without continuation bit, if any
pub open spec fn varint_len(s: Seq<u8>) -> Option<nat>
    decreases s.len()
{
    if s.len() == 0 { None }
    else if !cont(s[0]) { Some(1nat) }
    else { match varint_len(s.drop_first()) { Some(n) => Some(n + 1), None => None } }
}

pub uninterp spec fn varint_val(s: Seq<u8>) -> u64;   // value read_u64 computes from the first varint_len bytes

#[verifier::external_body]
pub fn read_u64(buf: &[u8]) -> (r: Result<(u64, usize)>)
    ensures
        r is Ok <==> varint_len(buf@) is Some,
        r is Ok ==> r->Ok_0.1 == varint_len(buf@)->Some_0 && r->Ok_0.0 == varint_val(buf@) && 1 <= r->Ok_0.1 <= buf@.len(),
{ unimplemented!() }

pub uninterp spec fn crc32(s: Seq<u8>) -> u32;
pub uninterp spec fn le32(c: u32) -> Seq<u8>;
pub broadcast proof fn le32_len(c: u32) ensures #[trigger] le32(c).len() == 4 { admit(); }

pub struct Hasher { pub ghost data: Seq<u8> }
impl Hasher {
    #[verifier::external_body]
    pub fn new() -> (h: Hasher) ensures h.data == Seq::<u8>::empty() { unimplemented!() }
    #[verifier::external_body]
    pub fn update(&mut self, b: &[u8]) ensures final(self).data == old(self).data + b@ { unimplemented!() }
    #[verifier::external_body]
    pub fn finalize(self) -> (c: u32) ensures c == crc32(self.data) { unimplemented!() }
}
#[verifier::external_body]
pub fn crc_bytes_ne(c: u32, b: &[u8]) -> (r: bool) ensures r == (le32(c) != b@) { unimplemented!() }

pub struct Rec { pub t: u8, pub p: Seq<u8> }

// one frame at the head of d: Some((rec, consumed)) or None (stop)
pub open spec fn head_frame(d: Seq<u8>) -> Option<(Rec, nat)> {
    match varint_len(d) {
        None => None,
        Some(n) => {
            let len = varint_val(d) as nat;
            if n >= d.len() { None }
            else if n + 1 + len + 4 > d.len() { None }
            else {
                let t = d[n as int];
                let p = d.subrange(n as int + 1, n as int + 1 + len as int);
                let c = d.subrange(n as int + 1 + len as int, n as int + 1 + len as int + 4);
                if le32(crc32(seq![t] + p)) != c { None } else { Some((Rec { t, p }, n + 1 + len + 4)) }
            }
        }
    }
}

pub open spec fn parse_frames(d: Seq<u8>) -> Seq<Rec>
    decreases d.len()
{
    if d.len() == 0 { Seq::empty() } else {
        match head_frame(d) {
            None => Seq::empty(),
            Some((r, k)) => if k == 0 || k > d.len() { Seq::empty() } else { seq![r] + parse_frames(d.subrange(k as int, d.len() as int)) },
        }
    }
}

#[verifier::external_body]
pub struct Document { _p: u8 }

pub enum WalEntry {
  AddDoc(Document),
  DeleteDocId(String),
  Commit,
}

pub uninterp spec fn doc_parses(p: Seq<u8>) -> bool;
pub uninterp spec fn doc_of(p: Seq<u8>) -> Document;
pub uninterp spec fn utf8_ok(p: Seq<u8>) -> bool;
pub uninterp spec fn utf8_of(p: Seq<u8>) -> Seq<char>;

#[verifier::external_body]
pub fn serde_json_from_slice_document(p: &[u8]) -> (r: Result<Document>)
  ensures r is Ok <==> doc_parses(p@), r is Ok ==> r->Ok_0 == doc_of(p@)
{ unimplemented!() }

#[verifier::external_body]
pub fn str_from_utf8(p: &[u8]) -> (r: Result<&str>)
  ensures r is Ok <==> utf8_ok(p@), r is Ok ==> r->Ok_0@ == utf8_of(p@)
{ unimplemented!() }


pub enum Ent { Add(Document), Del(Seq<char>), Commit }
pub open spec fn ent(e: WalEntry) -> Ent {
    match e { WalEntry::AddDoc(d) => Ent::Add(d), WalEntry::DeleteDocId(s) => Ent::Del(s@), WalEntry::Commit => Ent::Commit }
}
pub open spec fn ents(es: Seq<WalEntry>) -> Seq<Ent> { es.map_values(|e: WalEntry| ent(e)) }
pub open spec fn decode_rec(r: Rec) -> Seq<Ent> {
    if r.t == 1 { if doc_parses(r.p) { seq![Ent::Add(doc_of(r.p))] } else { Seq::empty() } }
    else if r.t == 2 { seq![Ent::Commit] }
    else if r.t == 3 { if utf8_ok(r.p) { seq![Ent::Del(utf8_of(r.p))] } else { Seq::empty() } }
    else { Seq::empty() }
}
pub open spec fn decode_all(rs: Seq<Rec>) -> Seq<Ent>
    decreases rs.len()
{ if rs.len() == 0 { Seq::empty() } else { decode_rec(rs[0]) + decode_all(rs.drop_first()) } }

pub proof fn lemma_decode_all_append(a: Seq<Rec>, b: Seq<Rec>)
    ensures decode_all(a + b) == decode_all(a) + decode_all(b)
    decreases a.len()
{
    if a.len() == 0 { assert(a + b =~= b); }
    else {
        assert((a + b).drop_first() =~= a.drop_first() + b);
        assert((a + b)[0] == a[0]);
        lemma_decode_all_append(a.drop_first(), b);
        assert(decode_rec(a[0]) + (decode_all(a.drop_first()) + decode_all(b)) =~= (decode_rec(a[0]) + decode_all(a.drop_first())) + decode_all(b));
    }
}

pub fn replay_slice(data: &[u8]) -> (entries: Vec<WalEntry>)
  ensures ents(entries@) == decode_all(parse_frames(data@))
{
    let mut cursor = 0usize;
    let mut entries = Vec::new();
    let ghost mut done: Seq<Rec> = Seq::empty();
    proof { assert(data@.subrange(0, data@.len() as int) =~= data@); assert(ents(entries@) =~= Seq::<Ent>::empty()); }
    while cursor < data.len()
      invariant_except_break
        cursor <= data.len(),
        parse_frames(data@) == done + parse_frames(data@.subrange(cursor as int, data@.len() as int)),
        ents(entries@) == decode_all(done),
      ensures
        ents(entries@) == decode_all(parse_frames(data@)),
      decreases
        data.len() - cursor,
    {
      let ghost c0 = cursor as int;
      let ghost rest = data@.subrange(c0, data@.len() as int);
      let ghost old_ents = ents(entries@);
      proof {
        assert(rest.len() > 0);
        let hf = head_frame(rest);
        let pf = parse_frames(rest);
        assert(hf is None ==> pf =~= Seq::<Rec>::empty());
        assert(done + Seq::<Rec>::empty() =~= done);
        let n = varint_len(rest);
        if n is Some {
          let nn = n->Some_0 as int;
          let ln = varint_val(rest) as int;
          if nn < rest.len() && nn + 1 + ln + 4 <= rest.len() {
            assert(rest[nn] == data@[c0 + nn]);
            assert(rest.subrange(nn + 1, nn + 1 + ln) =~= data@.subrange(c0 + nn + 1, c0 + nn + 1 + ln));
            assert(rest.subrange(nn + 1 + ln, nn + 1 + ln + 4) =~= data@.subrange(c0 + nn + 1 + ln, c0 + nn + 1 + ln + 4));
          }
        }
      }
      let (len, len_bytes) = match read_u64(&data[cursor..]) {
        Ok(v) => v,
        Err(_) => break,
      };
      cursor += len_bytes;
      if cursor >= data.len() {
        break;
      }
      let entry_type = data[cursor];
      cursor += 1;
      let len_usize = if let Ok(v) = usize::try_from(len) {
        v
      } else {
        break;
      };
      let payload_end = if let Some(end) = cursor.checked_add(len_usize) {
        end
      } else {
        break;
      };
      let checksum_end = if let Some(end) = payload_end.checked_add(4) {
        end
      } else {
        break;
      };
      if checksum_end > data.len() {
        break;
      }
      let payload = &data[cursor..payload_end];
      cursor = payload_end;
      let checksum_bytes = &data[cursor..checksum_end];
      cursor = checksum_end;
      let mut hasher = Hasher::new();
      hasher.update(&[entry_type]);
      proof { assert(hasher.data =~= seq![entry_type]); }
      hasher.update(payload);
      let checksum = hasher.finalize();
      proof {
        let nn = varint_len(rest)->Some_0 as int; let ln = varint_val(rest) as int;
        assert(payload@ =~= rest.subrange(nn + 1, nn + 1 + ln));
        assert(checksum_bytes@ =~= rest.subrange(nn + 1 + ln, nn + 1 + ln + 4));
        assert(checksum == crc32(seq![entry_type] + payload@));
      }
      if crc_bytes_ne(checksum, checksum_bytes) {
        break;
      }
      match entry_type {
        1 => {
          if let Ok(doc) = serde_json_from_slice_document(payload) {
            entries.push(WalEntry::AddDoc(doc));
          }
        }
        2 => entries.push(WalEntry::Commit),
        3 => {
          if let Ok(id) = str_from_utf8(payload) {
            entries.push(WalEntry::DeleteDocId(id.to_string()));
          }
        }
        _ => {}
      }
      proof {
        let hf = head_frame(rest);
        assert(hf is Some);
        let r = hf->Some_0.0; let k = hf->Some_0.1;
        assert(rest.subrange(k as int, rest.len() as int) =~= data@.subrange(cursor as int, data@.len() as int));
        assert(parse_frames(rest) == seq![r] + parse_frames(rest.subrange(k as int, rest.len() as int)));
        lemma_decode_all_append(done, seq![r]);
        assert(decode_all(seq![r]) =~= decode_rec(r)) by { assert(seq![r].drop_first() =~= Seq::<Rec>::empty()); assert(decode_all(Seq::<Rec>::empty()) =~= Seq::<Ent>::empty()); assert(seq![r][0] == r); assert(decode_rec(r) + Seq::<Ent>::empty() =~= decode_rec(r)); }
        done = done + seq![r];
        assert(done + parse_frames(data@.subrange(cursor as int, data@.len() as int)) =~= (done.drop_last() + (seq![r] + parse_frames(data@.subrange(cursor as int, data@.len() as int)))));
      }
    }
    entries
}
} // verus!
fn main(){}
