#[cfg(kani)]
mod kani_verif {
  use super::*;
  fn any_order() -> SortOrder { if kani::any() { SortOrder::Asc } else { SortOrder::Desc } }

  #[kani::proof_for_contract(compare_f64)]
  fn compare_f64_contract() {
    compare_f64(kani::any(), kani::any(), any_order());
  }

  fn any_val() -> SortValue {
    let k: u8 = kani::any();
    if k == 0 { SortValue::Missing } else if k == 1 { SortValue::F64(kani::any()) } else { SortValue::Missing }
  }

  #[kani::proof]
  #[kani::unwind(2)]
  fn part_cmp_f64_transitive() {
    let order = any_order();
    let a = SortKeyPart { order, value: any_val() };
    let b = SortKeyPart { order, value: any_val() };
    let c = SortKeyPart { order, value: any_val() };
    use std::cmp::Ordering::*;
    if a.cmp(&b) != Greater && b.cmp(&c) != Greater { assert!(a.cmp(&c) != Greater); }
    assert!(a.cmp(&b) == b.cmp(&a).reverse());
  }
}
