#[cfg(kani)]
mod kani_verif {
  use super::*;
  use smallvec::SmallVec;

  fn sorted_positions(n: usize) -> SmallVec<[u32; 4]> {
    let mut v: SmallVec<[u32; 4]> = SmallVec::new();
    let mut prev: u32 = 0;
    let mut i = 0;
    while i < n {
      let p: u32 = kani::any();
      kani::assume(p < 8 && (i == 0 || p > prev));
      v.push(p);
      prev = p;
      i += 1;
    }
    v
  }

  fn any_len() -> usize { let n: usize = kani::any(); kani::assume(n >= 1 && n <= 2); n }

  fn oracle2(a: &[u32], b: &[u32], slop: u32) -> bool {
    let mut i = 0;
    while i < a.len() {
      let mut j = 0;
      while j < b.len() {
        if b[j] > a[i] && b[j] - a[i] - 1 <= slop { return true; }
        j += 1;
      }
      i += 1;
    }
    false
  }

  #[kani::proof]
  #[kani::unwind(4)]
  fn phrase_two_terms() {
    let pa = sorted_positions(any_len());
    let pb = sorted_positions(any_len());
    let slop: u32 = kani::any();
    kani::assume(slop <= 3);
    let expect = oracle2(&pa, &pb, slop);
    let postings = vec![
      vec![PostingEntry { doc_id: 1, term_freq: pa.len() as u32, positions: pa }],
      vec![PostingEntry { doc_id: 1, term_freq: pb.len() as u32, positions: pb }],
    ];
    assert!(matches_phrase(&postings, 1, slop) == expect);
  }
}
