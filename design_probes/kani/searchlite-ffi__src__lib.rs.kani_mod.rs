#[cfg(kani)]
mod kani_verif {
  use super::*;

  // slice of searchlite_search: from `let len = ...` to the end; free vars: bytes, out_json_buf, buf_cap
  unsafe fn ffi_copy(bytes: &[u8], out_json_buf: *mut c_char, buf_cap: usize) -> usize {
    let len = bytes.len().min(buf_cap);
    std::ptr::copy_nonoverlapping(bytes.as_ptr(), out_json_buf as *mut u8, len);
    *out_json_buf.add(len) = 0;
    len
  }

  const N: usize = 32;

  #[kani::proof]
  #[kani::unwind(2)]
  fn copy_in_bounds() {
    let src: [u8; N] = kani::any();
    let n: usize = kani::any();
    kani::assume(n <= N);
    let cap: usize = kani::any();
    kani::assume(1 <= cap && cap <= N + 2);
    let mut buf = [0xAAu8; N + 4];
    let r = unsafe { ffi_copy(&src[..n], buf.as_mut_ptr() as *mut c_char, cap) };
    assert!(r == n.min(cap - 1));
    assert!(r < cap);
    assert!(buf[r] == 0);
    let i: usize = kani::any();
    kani::assume(i < N + 4);
    if i < r { assert!(buf[i] == src[i]); }
    if i >= cap { assert!(buf[i] == 0xAA); }
  }
}
