#[cfg(kani)]
mod kani_verif {
  use super::*;

  #[kani::proof]
  fn rescore_combine() {
    let o: f32 = kani::any();
    let r: f32 = kani::any();
    kani::assume(!o.is_nan() && !r.is_nan());
    assert!(combine_rescore_scores(RescoreMode::Total, o, r).to_bits() == (o + r).to_bits());
    assert!(combine_rescore_scores(RescoreMode::Sum, o, r).to_bits() == (o + r).to_bits());
    assert!(combine_rescore_scores(RescoreMode::Multiply, o, r).to_bits() == (o * r).to_bits());
    let mx = combine_rescore_scores(RescoreMode::Max, o, r);
    assert!(mx >= o && mx >= r && (mx == o || mx == r));
    let mn = combine_rescore_scores(RescoreMode::Min, o, r);
    assert!(mn <= o && mn <= r && (mn == o || mn == r));
  }
}
