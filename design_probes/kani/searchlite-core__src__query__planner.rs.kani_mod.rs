#[cfg(kani)]
mod kani_verif {
  use super::*;

  #[kani::proof]
  #[kani::unwind(4)]
  fn dismax_formula() {
    let l: [f32; 2] = kani::any();
    kani::assume(l[0].is_finite() && l[1].is_finite());
    let tie: f32 = kani::any();
    kani::assume(tie >= 0.0 && tie <= 1.0);
    let e = ScoreExpr::DisMax { children: vec![ScoreExpr::Leaf(0), ScoreExpr::Leaf(1)], tie_breaker: tie };
    let got = e.evaluate(&l);
    let mx = l[0].max(l[1]);
    let expect = mx + tie * ((0.0_f32 + l[0] + l[1]) - mx);
    assert!(got.to_bits() == expect.to_bits());
    let s = ScoreExpr::Sum(vec![ScoreExpr::Leaf(0), ScoreExpr::Leaf(1)]);
    assert!(s.evaluate(&l).to_bits() == (l[0] + l[1]).to_bits() || (l[0] + l[1]) == 0.0);
  }
}
