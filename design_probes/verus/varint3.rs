use vstd::prelude::*;
verus! {
pub open spec fn cont(b: u8) -> bool { b & 0x80 != 0 }

pub open spec fn enc(v: u64) -> Seq<u8>
    decreases v
{
    if v < 0x80 { seq![v as u8] } else { seq![((v as u8) & 0x7F) | 0x80] + enc(v / 0x80) }
}

pub open spec fn acc(s: Seq<u8>, n: nat) -> u64
    decreases n
{
    if n == 0 { 0u64 } else {
        let k = (n - 1) as nat;
        acc(s, k) | (((s[k as int] & 0x7F) as u64) << ((7 * k) as u64))
    }
}

pub open spec fn low(v: u64, j: nat) -> u64 {   // v restricted to its low 7*j bits (j <= 9)
    v & ((((1u64 << ((7 * j) as u64)) - 1) as u64))
}

// closed form of the j-th byte
pub proof fn lemma_enc_byte(v: u64, j: nat)
    requires j < enc(v).len()
    ensures
        enc(v).len() <= 10,
        7 * j < 64,
        enc(v)[j as int] == (if j + 1 < enc(v).len() { ((((v >> ((7 * j) as u64)) as u8) & 0x7F) | 0x80) as u8 } else { (v >> ((7 * j) as u64)) as u8 }),
        j + 1 == enc(v).len() ==> (v >> ((7 * j) as u64)) < 0x80,
    decreases j
{
    lemma_enc_len(v);
    if v < 0x80 {
        assert(enc(v) =~= seq![v as u8]);
        assert(v >> 0u64 == v) by(bit_vector);
    } else {
        let w = v / 0x80;
        assert(w == v >> 7u64) by(bit_vector) requires w == v / 0x80;
        assert(enc(v) =~= seq![((v as u8) & 0x7F) | 0x80] + enc(w));
        if j == 0 {
            assert(v >> 0u64 == v) by(bit_vector);
        } else {
            let jj = (j - 1) as nat;
            lemma_enc_byte(w, jj);
            assert(enc(v)[j as int] == enc(w)[jj as int]);
            let s1 = (7 * jj) as u64; let s2 = (7 * j) as u64;
            assert(s2 == s1 + 7);
            assert((v >> 7u64) >> s1 == v >> s2) by(bit_vector) requires s2 == s1 + 7, s2 < 64;
        }
    }
}

pub proof fn lemma_enc_len(v: u64)
    ensures 1 <= enc(v).len() <= 10,
{
    // enc(v).len() == number of 7-bit groups; bound via v < 2^(7*len)
    lemma_enc_len_bound(v, 10);
}
pub proof fn lemma_enc_len_bound(v: u64, k: nat)
    requires k >= 1, k <= 10, k < 10 ==> v < (1u64 << ((7 * k) as u64)),
    ensures 1 <= enc(v).len() <= k
    decreases k
{
    if v < 0x80 { assert(enc(v) =~= seq![v as u8]); }
    else {
        let w = v / 0x80;
        assert(enc(v) =~= seq![((v as u8) & 0x7F) | 0x80] + enc(w));
        if k == 1 { assert((1u64 << 7u64) == 0x80) by(bit_vector); assert(false); }
        let kk = (k - 1) as nat;
        let s = (7 * kk) as u64; let t = (7 * k) as u64;
        if k < 10 {
            assert(v / 0x80 < (1u64 << s)) by(bit_vector) requires v < (1u64 << t), t == s + 7, t < 64;
        } else {
            assert(v / 0x80 < (1u64 << 63u64)) by(bit_vector);
            assert(s == 63);
        }
        lemma_enc_len_bound(w, kk);
    }
}

pub proof fn lemma_acc(v: u64, rest: Seq<u8>, j: nat)
    requires j <= enc(v).len()
    ensures
        j < enc(v).len() ==> 7 * j < 64 && acc(enc(v) + rest, j) == v & (((1u64 << ((7 * j) as u64)) - 1) as u64),
        j == enc(v).len() ==> acc(enc(v) + rest, j) == v,
    decreases j
{
    let s = enc(v) + rest;
    lemma_enc_len(v);
    if j == 0 {
        assert(v & (((1u64 << 0u64) - 1) as u64) == 0) by(bit_vector);
    } else {
        let k = (j - 1) as nat;
        lemma_acc(v, rest, k);
        lemma_enc_byte(v, k);
        assert(s[k as int] == enc(v)[k as int]);
        let sh = (7 * k) as u64;
        let b = s[k as int];
        let prev = acc(s, k);
        assert(prev == v & (((1u64 << sh) - 1) as u64));
        let part = (b & 0x7F) as u64;
        let top = v >> sh;
        if j < enc(v).len() {
            assert(b == (((top as u8) & 0x7F) | 0x80) as u8);
            assert(part == top & 0x7F) by(bit_vector) requires b == (((top as u8) & 0x7F) | 0x80) as u8, part == (b & 0x7F) as u64;
            let sh2 = (7 * j) as u64;
            assert(sh2 == sh + 7 && sh2 < 64);
            assert((v & (((1u64 << sh) - 1) as u64)) | ((top & 0x7F) << sh) == v & (((1u64 << sh2) - 1) as u64)) by(bit_vector)
                requires top == v >> sh, sh2 == sh + 7, sh2 < 64;
        } else {
            assert(top < 0x80);
            assert(b == top as u8);
            assert(part == top) by(bit_vector) requires b == top as u8, part == (b & 0x7F) as u64, top < 0x80;
            assert((v & (((1u64 << sh) - 1) as u64)) | (top << sh) == v) by(bit_vector)
                requires top == v >> sh, top < 0x80, sh < 64;
        }
    }
}

// the statement U2 needs: decoding what write_u64 wrote, followed by anything, gives the value back
pub proof fn theorem_varint_roundtrip(v: u64, rest: Seq<u8>)
    ensures
        acc(enc(v) + rest, enc(v).len()) == v,
        !cont((enc(v) + rest)[enc(v).len() - 1]),
        forall|i: int| 0 <= i < enc(v).len() - 1 ==> cont(#[trigger] (enc(v) + rest)[i]),
{
    lemma_enc_len(v);
    lemma_acc(v, rest, enc(v).len());
    let n = enc(v).len();
    lemma_enc_byte(v, (n - 1) as nat);
    let top = v >> ((7 * (n - 1)) as u64);
    assert(((top as u8) & 0x80) == 0) by(bit_vector) requires top < 0x80;
    assert forall|i: int| 0 <= i < n - 1 implies cont(#[trigger] (enc(v) + rest)[i]) by {
        lemma_enc_byte(v, i as nat);
        let t = v >> ((7 * i) as u64);
        assert((((((t as u8) & 0x7F) | 0x80) as u8) & 0x80) != 0) by(bit_vector);
    }
}
}
fn main(){}
