use vstd::prelude::*;
use std::collections::{HashMap, BTreeMap};
verus! {

pub type DocId = u32;

#[verifier::external_body]
pub struct Document { _p: u8 }
impl Clone for Document {
    #[verifier::external_body]
    fn clone(&self) -> (r: Self) ensures r == *self { unimplemented!() }
}

pub struct DocAddress { pub segment_id: String, pub doc_id: DocId }

pub enum PendingOp {
  Add { doc_id: String, doc: Document },
  Delete { doc_id: String },
}

pub open spec fn op_id(op: PendingOp) -> String {
    match op { PendingOp::Add { doc_id, .. } => doc_id, PendingOp::Delete { doc_id } => doc_id }
}

// ghost log of tombstoned addresses
pub struct Tomb { pub ghost log: Seq<(String, DocId)> }

#[verifier::external_body]
pub fn map_vec_push(m: &mut HashMap<String, Vec<DocId>>, Ghost(t): Ghost<&mut Tomb>, k: String, v: DocId)
  ensures final(t).log == old(t).log.push((k, v))
{ m.entry(k).or_default().push(v); }

pub open spec fn last_add(ops: Seq<PendingOp>, id: String) -> Option<Document>
  decreases ops.len()
{
  if ops.len() == 0 { None } else {
    match ops.last() {
      PendingOp::Add { doc_id, doc } => if doc_id == id { Some(doc) } else { last_add(ops.drop_last(), id) },
      PendingOp::Delete { doc_id } => if doc_id == id { None } else { last_add(ops.drop_last(), id) },
    }
  }
}
pub open spec fn touched(ops: Seq<PendingOp>, id: String) -> bool {
  exists|i: int| 0 <= i < ops.len() && op_id(#[trigger] ops[i]) == id
}

pub fn fold(pending_ops: &Vec<PendingOp>, live_docs: &mut HashMap<String, DocAddress>,
            pending_new: &mut BTreeMap<String, Document>, tombstones: &mut HashMap<String, Vec<DocId>>, Ghost(t): Ghost<&mut Tomb>)
  requires vstd::std_specs::hash::obeys_key_model::<String>(), vstd::std_specs::btree::key_obeys_cmp_spec::<String>(), old(pending_new)@ == Map::<String, Document>::empty(), old(t).log.len() == 0,
  ensures
    forall|id: String| #![auto] final(pending_new)@.contains_key(id) <==> last_add(pending_ops@, id) is Some,
    forall|id: String| #![auto] final(pending_new)@.contains_key(id) ==> final(pending_new)@[id] == last_add(pending_ops@, id)->Some_0,
    forall|id: String| #![auto] !touched(pending_ops@, id) ==> (final(live_docs)@.contains_key(id) <==> old(live_docs)@.contains_key(id)),
    forall|id: String| #![auto] !touched(pending_ops@, id) && old(live_docs)@.contains_key(id) ==> final(live_docs)@[id] == old(live_docs)@[id],
    forall|id: String| #![auto] touched(pending_ops@, id) ==> !final(live_docs)@.contains_key(id),
{
    broadcast use vstd::std_specs::hash::group_hash_axioms;
    broadcast use vstd::std_specs::btree::group_btree_axioms;
    let ghost live0 = live_docs@;
    for op in it: pending_ops.iter()
      invariant
        vstd::std_specs::btree::key_obeys_cmp_spec::<String>(),
        vstd::std_specs::hash::obeys_key_model::<String>(),
        forall|id: String| #![auto] pending_new@.contains_key(id) <==> last_add(pending_ops@.take(it.index@ as int), id) is Some,
        forall|id: String| #![auto] pending_new@.contains_key(id) ==> pending_new@[id] == last_add(pending_ops@.take(it.index@ as int), id)->Some_0,
        forall|id: String| #![auto] !touched(pending_ops@.take(it.index@ as int), id) ==> (live_docs@.contains_key(id) <==> live0.contains_key(id)),
        forall|id: String| #![auto] !touched(pending_ops@.take(it.index@ as int), id) && live0.contains_key(id) ==> live_docs@[id] == live0[id],
        forall|id: String| #![auto] touched(pending_ops@.take(it.index@ as int), id) ==> !live_docs@.contains_key(id),
    {
      let ghost k = it.index@ as int;
      proof {
        assert(pending_ops@.take(k+1).drop_last() =~= pending_ops@.take(k));
        assert(pending_ops@.take(k+1).last() == pending_ops@[k]);
        assert forall|id: String| touched(pending_ops@.take(k+1), id) <==> (touched(pending_ops@.take(k), id) || op_id(pending_ops@[k]) == id) by {
          if touched(pending_ops@.take(k), id) { let i = choose|i: int| 0 <= i < k && op_id(#[trigger] pending_ops@.take(k)[i]) == id; assert(pending_ops@.take(k+1)[i] == pending_ops@.take(k)[i]); }
          if op_id(pending_ops@[k]) == id { assert(pending_ops@.take(k+1)[k] == pending_ops@[k]); }
          if touched(pending_ops@.take(k+1), id) { let i = choose|i: int| 0 <= i < k+1 && op_id(#[trigger] pending_ops@.take(k+1)[i]) == id; if i < k { assert(pending_ops@.take(k)[i] == pending_ops@.take(k+1)[i]); } }
        }
      }
      let ghost pn0 = pending_new@;
      match op {
        PendingOp::Add { doc_id, doc } => {
          if let Some(addr) = live_docs.remove(doc_id) {
            map_vec_push(tombstones, Ghost(t), addr.segment_id, addr.doc_id);
          }
          pending_new.insert(doc_id.clone(), doc.clone());
          proof {
            assert(pending_new@ == pn0.insert(*doc_id, *doc));
            assert(pending_ops@[k] == *op);
            assert forall|id: String| #![auto] last_add(pending_ops@.take(k+1), id) == (if *doc_id == id { Some(*doc) } else { last_add(pending_ops@.take(k), id) }) by {}
          }
        }
        PendingOp::Delete { doc_id } => {
          pending_new.remove(doc_id);
          if let Some(addr) = live_docs.remove(doc_id) {
            map_vec_push(tombstones, Ghost(t), addr.segment_id, addr.doc_id);
          }
          proof {
            assert(pending_new@ == pn0.remove(*doc_id));
            assert(pending_ops@[k] == *op);
            assert forall|id: String| #![auto] last_add(pending_ops@.take(k+1), id) == (if *doc_id == id { None::<Document> } else { last_add(pending_ops@.take(k), id) }) by {}
          }
        }
      }
    }
    proof { assert(pending_ops@.take(pending_ops@.len() as int) =~= pending_ops@); }
}
}
fn main(){}
