use vstd::prelude::*;
verus! {
pub struct Error;
pub type Result<T> = core::result::Result<T, Error>;
pub const CURSOR_VERSION: u8 = 1;
pub const CURSOR_BYTES: usize = 21;
pub const MAX_CURSOR_ADVANCE: usize = 50_000;

pub uninterp spec fn be32(x: u32) -> Seq<u8>;
pub broadcast proof fn be32_len(x: u32) ensures #[trigger] be32(x).len() == 4 { admit(); }
pub broadcast proof fn be32_inj(x: u32, y: u32) ensures #[trigger] be32(x) == #[trigger] be32(y) ==> x == y { admit(); }

#[verifier::external_body]
pub fn put_be_u32(buf: &mut [u8; 21], off: usize, x: u32)
    requires off + 4 <= 21
    ensures final(buf)@ == old(buf)@.subrange(0, off as int) + be32(x) + old(buf)@.subrange(off as int + 4, 21)
{ unimplemented!() }

#[verifier::external_body]
pub fn get_be_u32(buf: &[u8; 21], off: usize) -> (x: u32)
    requires off + 4 <= 21
    ensures be32(x) == buf@.subrange(off as int, off as int + 4)
{ unimplemented!() }

pub struct Fields { pub generation: u32, pub score_bits: u32, pub segment_ord: u32, pub doc_id: u32, pub returned: u32 }

pub open spec fn layout(version: u8, f: Fields) -> Seq<u8> {
    seq![version] + be32(f.generation) + be32(f.score_bits) + be32(f.segment_ord) + be32(f.doc_id) + be32(f.returned)
}

// slice of PaginationCursor::encode (after R13)
pub fn encode_fields(version: u8, f: &Fields) -> (buf: [u8; 21])
    ensures buf@ == layout(version, *f)
{
    broadcast use be32_len;
    let mut buf = [0u8; CURSOR_BYTES];
    buf[0] = version;
    put_be_u32(&mut buf, 1, f.generation);
    put_be_u32(&mut buf, 5, f.score_bits);
    put_be_u32(&mut buf, 9, f.segment_ord);
    put_be_u32(&mut buf, 13, f.doc_id);
    put_be_u32(&mut buf, 17, f.returned);
    proof { assert(buf@ =~= layout(version, *f)); }
    buf
}

// slice B of PaginationCursor::decode (after R1, R13)
pub fn decode_fields(bytes: &[u8; 21]) -> (r: Result<Fields>)
    ensures
        r is Ok ==> bytes@ == layout(CURSOR_VERSION, r->Ok_0),
        forall|f: Fields| bytes@ == layout(CURSOR_VERSION, f) && f.returned <= MAX_CURSOR_ADVANCE ==> r is Ok,
{
    broadcast use be32_len, be32_inj;
    let version = bytes[0];
    if version != CURSOR_VERSION {
      proof { assert forall|f: Fields| bytes@ == layout(CURSOR_VERSION, f) implies false by { assert(layout(CURSOR_VERSION, f)[0] == CURSOR_VERSION); } }
      return Err(Error);
    }
    let generation = get_be_u32(bytes, 1);
    let score_bits = get_be_u32(bytes, 5);
    let segment_ord = get_be_u32(bytes, 9);
    let doc_id = get_be_u32(bytes, 13);
    let returned = get_be_u32(bytes, 17);
    if returned as usize > MAX_CURSOR_ADVANCE {
      proof {
        assert forall|f: Fields| bytes@ == layout(CURSOR_VERSION, f) && f.returned <= MAX_CURSOR_ADVANCE implies false by {
          assert(layout(CURSOR_VERSION, f).subrange(17, 21) =~= be32(f.returned));
        }
      }
      return Err(Error);
    }
    let out = Fields { generation, score_bits, segment_ord, doc_id, returned };
    proof {
      assert(bytes@ =~= seq![bytes@[0]] + bytes@.subrange(1,5) + bytes@.subrange(5,9) + bytes@.subrange(9,13) + bytes@.subrange(13,17) + bytes@.subrange(17,21));
    }
    Ok(out)
}

pub proof fn layout_injective(f: Fields, g: Fields)
    requires layout(CURSOR_VERSION, f) == layout(CURSOR_VERSION, g)
    ensures f == g
{
    broadcast use be32_len, be32_inj;
    let a = layout(CURSOR_VERSION, f); let b = layout(CURSOR_VERSION, g);
    assert(a.subrange(1,5) =~= be32(f.generation)); assert(b.subrange(1,5) =~= be32(g.generation));
    assert(a.subrange(5,9) =~= be32(f.score_bits)); assert(b.subrange(5,9) =~= be32(g.score_bits));
    assert(a.subrange(9,13) =~= be32(f.segment_ord)); assert(b.subrange(9,13) =~= be32(g.segment_ord));
    assert(a.subrange(13,17) =~= be32(f.doc_id)); assert(b.subrange(13,17) =~= be32(g.doc_id));
    assert(a.subrange(17,21) =~= be32(f.returned)); assert(b.subrange(17,21) =~= be32(g.returned));
}

pub fn roundtrip(f: Fields) -> (r: Result<Fields>)
    requires f.returned <= MAX_CURSOR_ADVANCE
    ensures r is Ok, r->Ok_0 == f
{
    let b = encode_fields(CURSOR_VERSION, &f);
    let r = decode_fields(&b);
    proof { if r is Ok { layout_injective(f, r->Ok_0); } }
    r
}
}
fn main(){}
