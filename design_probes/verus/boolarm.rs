use vstd::prelude::*;
verus! {

pub type DocId = u32;
#[verifier::external_body]
pub struct QueryMatcher { _p: u8 }
#[verifier::external_body]
pub struct Filter { _p: u8 }
#[verifier::external_body]
pub struct FastFieldsReader { _p: u8 }

pub uninterp spec fn sem(node: QueryMatcher, doc: DocId) -> bool;
pub uninterp spec fn filters_ok(r: &FastFieldsReader, doc: DocId, f: Seq<Filter>) -> bool;

pub struct QueryEvaluator<'a> { pub fast_fields: &'a FastFieldsReader }
impl<'a> QueryEvaluator<'a> {
    #[verifier::external_body]
    pub fn matches_node(&self, node: &QueryMatcher, doc_id: DocId) -> (r: bool)
        ensures r == sem(*node, doc_id)
    { unimplemented!() }
}
#[verifier::external_body]
pub fn passes_filters(reader: &FastFieldsReader, doc_id: DocId, filters: &[Filter]) -> (r: bool)
    ensures r == filters_ok(reader, doc_id, filters@)
{ unimplemented!() }

pub open spec fn count_true(s: Seq<QueryMatcher>, doc: DocId) -> nat
    decreases s.len()
{ if s.len() == 0 { 0 } else { count_true(s.drop_last(), doc) + if sem(s.last(), doc) { 1nat } else { 0nat } } }

pub open spec fn bool_sem(must: Seq<QueryMatcher>, should: Seq<QueryMatcher>, must_not: Seq<QueryMatcher>,
                          fok: bool, filter_len: nat, msm: Option<usize>, doc: DocId) -> bool {
    (forall|i: int| 0 <= i < must.len() ==> sem(must[i], doc))
    && (forall|i: int| 0 <= i < must_not.len() ==> !sem(must_not[i], doc))
    && fok
    && count_true(should, doc) >= (match msm {
          Some(n) => n as nat,
          None => if should.len() == 0 { 0nat } else if must.len() == 0 && filter_len == 0 { 1nat } else { 0nat } })
}

impl<'a> QueryEvaluator<'a> {
pub fn bool_arm(&self, must: &Vec<QueryMatcher>, should: &Vec<QueryMatcher>, must_not: &Vec<QueryMatcher>,
                filter: &Vec<Filter>, minimum_should_match: &Option<usize>, doc_id: DocId) -> (r: bool)
    ensures r == bool_sem(must@, should@, must_not@, filters_ok(self.fast_fields, doc_id, filter@), filter@.len(), *minimum_should_match, doc_id)
{
        for child in it: must.iter()
            invariant forall|i: int| 0 <= i < it.index@ ==> sem(must@[i], doc_id)
        {
          if !self.matches_node(child, doc_id) {
            return false;
          }
        }
        for child in it: must_not.iter()
            invariant forall|i: int| 0 <= i < it.index@ ==> !sem(must_not@[i], doc_id),
              forall|i: int| 0 <= i < must@.len() ==> sem(must@[i], doc_id)
        {
          if self.matches_node(child, doc_id) {
            return false;
          }
        }
        if !passes_filters(self.fast_fields, doc_id, filter) {
          return false;
        }
        let mut should_matches = 0usize;
        for child in it: should.iter()
            invariant should_matches == count_true(should@.take(it.index@ as int), doc_id), should_matches <= it.index@, it.index@ <= should@.len(),
              forall|i: int| 0 <= i < must@.len() ==> sem(must@[i], doc_id),
              forall|i: int| 0 <= i < must_not@.len() ==> !sem(must_not@[i], doc_id),
        {
          proof { assert(should@.take(it.index@ as int + 1).drop_last() =~= should@.take(it.index@ as int)); }
          if self.matches_node(child, doc_id) {
            should_matches += 1;
          }
        }
        proof { assert(should@.take(should@.len() as int) =~= should@); }
        let min_should = match *minimum_should_match { Some(v) => v, None => {
          if should.is_empty() {
            0
          } else if must.is_empty() && filter.is_empty() {
            1
          } else {
            0
          }
        }};
        should_matches >= min_should
}
}
}
fn main(){}
