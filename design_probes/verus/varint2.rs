use vstd::prelude::*;
verus! {
pub struct Error;
pub type Result<T> = core::result::Result<T, Error>;

pub open spec fn cont(b: u8) -> bool { b & 0x80 != 0 }

// value accumulated by the decoder over the first n bytes (wrapping u64 semantics of `part << shift`)
pub open spec fn acc(s: Seq<u8>, n: nat) -> u64
    decreases n
{
    if n == 0 { 0u64 } else {
        let k = (n - 1) as nat;
        acc(s, k) | (((s[k as int] & 0x7F) as u64) << ((7 * k) as u64))
    }
}

pub open spec fn varint_len(s: Seq<u8>) -> Option<nat>
    decreases s.len()
{
    if s.len() == 0 { None }
    else if !cont(s[0]) { Some(1nat) }
    else { match varint_len(s.drop_first()) { Some(n) => Some(n + 1), None => None } }
}

pub fn read_u64(buf: &[u8]) -> (r: Result<(u64, usize)>)
    ensures
        r is Ok ==> 1 <= r->Ok_0.1 <= buf@.len() && r->Ok_0.1 <= 10
            && !cont(buf@[r->Ok_0.1 as int - 1])
            && (forall|i: int| 0 <= i < r->Ok_0.1 as int - 1 ==> cont(buf@[i]))
            && r->Ok_0.0 == acc(buf@, r->Ok_0.1 as nat),
{
  let mut shift = 0u32;
  let mut value = 0u64;
  let mut i: usize = 0;
  while i < buf.len()
    invariant i <= buf.len(), i <= 9, shift == 7 * i, value == acc(buf@, i as nat),
      forall|k: int| 0 <= k < i ==> cont(buf@[k]),
    decreases buf.len() - i
  {
    let b = buf[i];
    let part = (b & 0x7F) as u64;
    value |= part << shift;
    if b & 0x80 == 0 {
      return Ok((value, i + 1));
    }
    shift += 7;
    if shift >= 64 { return Err(Error); }   // <- the planned fix
    i += 1;
  }
  Err(Error)
}

pub open spec fn enc(v: u64) -> Seq<u8>
    decreases v
{
    if v < 0x80 { seq![v as u8] } else { seq![((v as u8) & 0x7F) | 0x80] + enc(v >> 7) }
}

pub fn write_u64(mut v: u64, out: &mut Vec<u8>)
    ensures final(out)@ == old(out)@ + enc(v)
{
  let ghost v0 = v;
  let ghost pre = out@;
  while v >= 0x80
    invariant out@ + enc(v) == pre + enc(v0),
    decreases v
  {
    let ghost vv = v;
    let ghost o = out@;
    out.push(((v as u8) & 0x7F) | 0x80);
    v >>= 7;
    proof {
        assert(vv >> 7 < vv) by(bit_vector) requires vv >= 0x80;
        assert(enc(vv) == seq![((vv as u8) & 0x7F) | 0x80] + enc(vv >> 7));
        assert(o.push(((vv as u8) & 0x7F) | 0x80) + enc(v) =~= o + enc(vv));
    }
  }
  out.push(v as u8);
  proof { assert(enc(v) == seq![v as u8]); assert(out@ =~= pre + enc(v0)); }
}
}
fn main(){}
