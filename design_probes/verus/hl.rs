use vstd::prelude::*;
verus! {
#[verifier::external_body]
pub struct Regex { _p: u8 }
pub struct Match { pub s: usize, pub e: usize }
impl Match {
  pub fn start(&self) -> (r: usize) ensures r == self.s { self.s }
  pub fn end(&self) -> (r: usize) ensures r == self.e { self.e }
}
pub struct HighlightOptions { pub fragment_size: usize, pub number_of_fragments: usize }

pub uninterp spec fn byte_len(t: &str) -> nat;
pub uninterp spec fn is_boundary(t: &str, i: nat) -> bool;

#[verifier::external_body]
pub fn str_len(t: &str) -> (r: usize) ensures r == byte_len(t) { t.len() }
#[verifier::external_body]
pub fn regex_find_at(re: &Regex, text: &str, offset: usize) -> (r: Option<Match>)
  ensures r is Some ==> offset <= r->Some_0.s < r->Some_0.e <= byte_len(text) && is_boundary(text, r->Some_0.s as nat) && is_boundary(text, r->Some_0.e as nat)
{ unimplemented!() }
#[verifier::external_body]
pub fn str_get<'a>(t: &'a str, a: usize, b: usize) -> (r: Option<&'a str>)
  ensures r is Some <==> (a <= b <= byte_len(t) && is_boundary(t, a as nat) && is_boundary(t, b as nat)),
          r is Some ==> byte_len(r->Some_0) == b - a
{ t.get(a..b) }
#[verifier::external_body]
pub fn regex_replace_all_tags(re: &Regex, fragment: &String) -> (r: String) { unimplemented!() }

pub fn frag_loop(re: &Regex, text: &str, opts: &HighlightOptions) -> (out: Vec<String>)
{
  let mut out = Vec::new();
  let mut offset = 0usize;
  for _i in 0..opts.number_of_fragments {
    if let Some(m) = regex_find_at(re, text, offset) {
      let start = m.start().saturating_sub(opts.fragment_size / 2);
      let end = usize::min(str_len(text), start.saturating_add(opts.fragment_size));
      let got = str_get(text, start, end);
      assert(m.s - start <= opts.fragment_size / 2);
      assert(opts.fragment_size >= 2 * (m.e - m.s) ==> m.e <= end);
      assert(got is Some);   // non-emptiness of the fragment needs this
      let fragment = got.unwrap_or("").to_string();
      let highlighted = regex_replace_all_tags(re, &fragment);
      out.push(highlighted);
      offset = m.end();
    } else {
      break;
    }
  }
  out
}
}
fn main(){}
