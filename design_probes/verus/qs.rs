use vstd::prelude::*;
verus! {
pub type DocId = u32;
pub struct QueryStringMatcher {
  pub term_groups: Vec<usize>,
  pub phrase_groups: Vec<usize>,
  pub not_term_groups: Vec<usize>,
  pub minimum_should_match: Option<usize>,
}
pub uninterp spec fn term_sem(idx: usize, doc: DocId) -> bool;
pub uninterp spec fn phrase_sem(idx: usize, doc: DocId) -> bool;
pub struct QueryEvaluator { pub p: u8 }
impl QueryEvaluator {
  #[verifier::external_body]
  pub fn term_group_matches(&self, group_idx: usize, doc_id: DocId) -> (r: bool) ensures r == term_sem(group_idx, doc_id) { unimplemented!() }
  #[verifier::external_body]
  pub fn phrase_matches(&self, phrase_idx: usize, doc_id: DocId) -> (r: bool) ensures r == phrase_sem(phrase_idx, doc_id) { unimplemented!() }
}
pub open spec fn count_terms(s: Seq<usize>, doc: DocId) -> nat decreases s.len()
{ if s.len() == 0 { 0 } else { count_terms(s.drop_last(), doc) + if term_sem(s.last(), doc) { 1nat } else { 0nat } } }

// documented: empty query matches nothing; any not-term excludes; all phrases required;
// with no terms: matches iff there is a phrase or a not-term; else at least `minimum_should_match` (default 1) terms
pub open spec fn qs_sem(m: QueryStringMatcher, doc: DocId) -> bool {
  if m.term_groups@.len() == 0 && m.phrase_groups@.len() == 0 && m.not_term_groups@.len() == 0 { false }
  else {
    (forall|i: int| 0 <= i < m.not_term_groups@.len() ==> !term_sem(m.not_term_groups@[i], doc))
    && (forall|i: int| 0 <= i < m.phrase_groups@.len() ==> phrase_sem(m.phrase_groups@[i], doc))
    && (if m.term_groups@.len() == 0 { true } else { count_terms(m.term_groups@, doc) >= (match m.minimum_should_match { Some(n) => n as nat, None => 1nat }) })
  }
}

impl QueryEvaluator {
  pub fn qs_arm(&self, matcher: &QueryStringMatcher, doc_id: DocId) -> (r: bool)
    ensures r == qs_sem(*matcher, doc_id)
  {
        if matcher.term_groups.is_empty()
          && matcher.phrase_groups.is_empty()
          && matcher.not_term_groups.is_empty()
        {
          return false;
        }
        for idx_ref in it: matcher.not_term_groups.iter()
          invariant forall|i: int| 0 <= i < it.index@ ==> !term_sem(matcher.not_term_groups@[i], doc_id)
        {
          let idx = *idx_ref;
          if self.term_group_matches(idx, doc_id) {
            return false;
          }
        }
        for idx_ref in it: matcher.phrase_groups.iter()
          invariant forall|i: int| 0 <= i < it.index@ ==> phrase_sem(matcher.phrase_groups@[i], doc_id),
            forall|i: int| 0 <= i < matcher.not_term_groups@.len() ==> !term_sem(matcher.not_term_groups@[i], doc_id)
        {
          let idx = *idx_ref;
          if !self.phrase_matches(idx, doc_id) {
            return false;
          }
        }
        if matcher.term_groups.is_empty() {
          return !matcher.phrase_groups.is_empty() || !matcher.not_term_groups.is_empty();
        }
        let mut matched_terms: usize = 0;
        for idx_ref in it: matcher.term_groups.iter()
          invariant matched_terms == count_terms(matcher.term_groups@.take(it.index@ as int), doc_id), matched_terms <= it.index@, it.index@ <= matcher.term_groups@.len(),
            forall|i: int| 0 <= i < matcher.phrase_groups@.len() ==> phrase_sem(matcher.phrase_groups@[i], doc_id),
            forall|i: int| 0 <= i < matcher.not_term_groups@.len() ==> !term_sem(matcher.not_term_groups@[i], doc_id)
        {
          let idx = *idx_ref;
          proof { assert(matcher.term_groups@.take(it.index@ as int + 1).drop_last() =~= matcher.term_groups@.take(it.index@ as int)); }
          if self.term_group_matches(idx, doc_id) { matched_terms += 1; }
        }
        proof { assert(matcher.term_groups@.take(matcher.term_groups@.len() as int) =~= matcher.term_groups@); }
        let required = match matcher.minimum_should_match { Some(v) => v, None => 1 };
        matched_terms >= required
  }
}
}
fn main(){}
