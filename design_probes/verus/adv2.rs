use vstd::prelude::*;
verus! {
global size_of usize == 8;
pub type DocId = u32;
pub struct PostingEntry { pub doc_id: DocId, pub term_freq: u32 }
pub struct PostingsReader { pub data: Vec<PostingEntry> }
impl PostingsReader {
  pub fn entry(&self, idx: usize) -> (r: Option<&PostingEntry>)
    ensures idx < self.data@.len() ==> r == Some(&self.data@[idx as int]), idx >= self.data@.len() ==> r is None
  { if idx < self.data.len() { Some(&self.data[idx]) } else { None } }
  pub fn entries(&self) -> (r: &[PostingEntry]) ensures r@ == self.data@ { self.data.as_slice() }
  pub fn len(&self) -> (r: usize) ensures r == self.data@.len() { self.data.len() }
}
pub open spec fn sorted(s: Seq<PostingEntry>) -> bool { forall|i: int, j: int| 0 <= i < j < s.len() ==> s[i].doc_id < s[j].doc_id }

#[verifier::external_body]
pub fn partition_point_lt(s: &[PostingEntry], target: DocId) -> (r: usize)
  requires sorted(s@)
  ensures r <= s@.len(), forall|i: int| 0 <= i < r ==> s@[i].doc_id < target, forall|i: int| r <= i < s@.len() ==> s@[i].doc_id >= target
{ s.partition_point(|p| p.doc_id < target) }

pub const DOCID_END: DocId = u32::MAX;
pub struct TermState { pub postings: PostingsReader, pub idx: usize }
impl TermState {
  pub fn is_done(&self) -> (r: bool) ensures r == (self.idx >= self.postings.data@.len()) { self.idx >= self.postings.len() }
  pub fn doc_id(&self) -> (r: DocId)
    ensures self.idx < self.postings.data@.len() ==> r == self.postings.data@[self.idx as int].doc_id
  {
    if let Some(entry) = self.postings.entry(self.idx) {
      entry.doc_id
    } else {
      DOCID_END
    }
  }

  pub open spec fn wf(&self) -> bool { sorted(self.postings.data@) && self.idx <= self.postings.data@.len() && self.postings.data@.len() < 0x4000_0000_0000_0000 }

  pub fn advance_to(&mut self, target: DocId) -> (delta: usize)
    requires old(self).wf(),
    ensures final(self).postings == old(self).postings, final(self).wf(),
      final(self).idx >= old(self).idx,
      delta == final(self).idx - old(self).idx,
      forall|i: int| old(self).idx <= i < final(self).idx ==> old(self).postings.data@[i].doc_id < target,
      final(self).idx < old(self).postings.data@.len() ==> old(self).postings.data@[final(self).idx as int].doc_id >= target,
  {
    if self.is_done() || self.doc_id() >= target {
      return 0;
    }
    let len = self.postings.len();
    let low = self.idx + 1;
    if low >= len {
      let delta = len.saturating_sub(self.idx);
      self.idx = len;
      return delta;
    }
    let mut step = 1usize;
    while low + step < len
      invariant low < len, len == self.postings.data@.len(), len < 0x4000_0000_0000_0000, 1 <= step, step <= 2 * len,
      ensures
        low + step < len ==> self.postings.data@[(low + step) as int].doc_id >= target,
        step <= 2 * len,
      decreases 2 * len - step
    {
      if let Some(entry) = self.postings.entry(low + step) {
        if entry.doc_id >= target {
          break;
        }
      }
      let ghost st = step;
      step <<= 1;
      proof { assert(st << 1 == 2 * st) by(bit_vector) requires st < 0x4000_0000_0000_0000usize; }
    }
    let upper = (low + step).min(len);
    let slice = &self.postings.entries()[low..upper];
    let advance = partition_point_lt(slice, target);
    proof {
      assert(slice@ =~= self.postings.data@.subrange(low as int, upper as int));
      assert forall|i: int| low <= i < low + advance implies self.postings.data@[i].doc_id < target by {
        assert(slice@[i - low] == self.postings.data@[i]);
      }
      if advance < slice@.len() { assert(slice@[advance as int] == self.postings.data@[low + advance]); }
    }
    let new_idx = (low + advance).min(len);
    let delta = new_idx.saturating_sub(self.idx);
    self.idx = new_idx;
    delta
  }
}
}
fn main(){}
