use vstd::prelude::*;
verus! {
// keys abstracted as ints under a strict total order (order-embedding of SortKey::cmp, K1)
pub open spec fn strictly_sorted(s: Seq<int>) -> bool { forall|i: int, j: int| 0 <= i < j < s.len() ==> s[i] < s[j] }

// the skip step of search_segment/scan_segment: keep exactly the keys greater than the cursor, in listing order
pub open spec fn keep_gt(s: Seq<int>, k: int) -> Seq<int>
    decreases s.len()
{
    if s.len() == 0 { Seq::empty() }
    else { keep_gt(s.drop_last(), k) + (if s.last() > k { seq![s.last()] } else { Seq::<int>::empty() }) }
}
pub open spec fn after(s: Seq<int>, c: Option<int>) -> Seq<int> {
    match c { None => s, Some(k) => keep_gt(s, k) }
}
pub open spec fn page(s: Seq<int>, c: Option<int>, n: nat) -> Seq<int> {
    let a = after(s, c); if a.len() > n { a.take(n as int) } else { a }
}
pub open spec fn next_cursor(s: Seq<int>, c: Option<int>, n: nat) -> Option<int> {
    let a = after(s, c); if a.len() > n { Some(a[n as int - 1]) } else { None }
}
pub open spec fn walk(s: Seq<int>, c: Option<int>, n: nat, fuel: nat) -> Seq<int>
    decreases fuel
{
    if fuel == 0 { Seq::empty() } else {
        match next_cursor(s, c, n) {
            None => page(s, c, n),
            Some(k) => page(s, c, n) + walk(s, Some(k), n, (fuel - 1) as nat),
        }
    }
}

pub proof fn lemma_keep_none(s: Seq<int>, k: int)
    requires forall|j: int| 0 <= j < s.len() ==> s[j] <= k
    ensures keep_gt(s, k) == Seq::<int>::empty()
    decreases s.len()
{
    if s.len() > 0 { lemma_keep_none(s.drop_last(), k); }
}

pub proof fn lemma_after_suffix(s: Seq<int>, i: int)
    requires strictly_sorted(s), 0 <= i < s.len()
    ensures keep_gt(s, s[i]) == s.skip(i + 1)
    decreases s.len()
{
    let last = s.last(); let init = s.drop_last();
    if i == s.len() - 1 {
        lemma_keep_none(init, s[i]);
        assert(s.skip(i + 1) =~= Seq::<int>::empty());
    } else {
        assert(strictly_sorted(init));
        assert(init[i] == s[i]);
        lemma_after_suffix(init, i);
        assert(last > s[i]);
        assert(s.skip(i + 1) =~= init.skip(i + 1) + seq![last]);
    }
}

// pages from a cursor that sits at position i-1 (or from the start when i == 0) enumerate s.skip(i)
pub proof fn lemma_walk(s: Seq<int>, i: int, n: nat, fuel: nat)
    requires strictly_sorted(s), 0 <= i <= s.len(), n >= 1, fuel * n >= s.len() - i + 1,
    ensures walk(s, if i == 0 { None } else { Some(s[i - 1]) }, n, fuel) == s.skip(i)
    decreases fuel
{
    let c = if i == 0 { None } else { Some(s[i - 1]) };
    if i > 0 { lemma_after_suffix(s, i - 1); } else { assert(s.skip(0) =~= s); }
    let a = after(s, c);
    assert(a == s.skip(i));
    if fuel == 0 { assert(fuel * n == 0) by(nonlinear_arith) requires fuel == 0; assert(false); }
    else if a.len() > n {
        let k = a[n as int - 1];
        assert(k == s[i + n as int - 1]);
        assert((fuel - 1) * n >= s.len() - (i + n as int) + 1) by(nonlinear_arith)
            requires fuel * n >= s.len() - i + 1, fuel >= 1, n >= 1;
        lemma_walk(s, i + n as int, n, (fuel - 1) as nat);
        assert(a.take(n as int) + s.skip(i + n as int) =~= s.skip(i));
    } else { }
}

// the statement used by C11 / C30: every key exactly once, in order; cursor absent exactly on the last page
pub proof fn theorem_pagination(s: Seq<int>, n: nat)
    requires strictly_sorted(s), n >= 1
    ensures walk(s, None, n, s.len() + 1) == s
{
    assert((s.len() + 1) * n >= s.len() + 1) by(nonlinear_arith) requires n >= 1;
    lemma_walk(s, 0, n, s.len() + 1);
    assert(s.skip(0) =~= s);
}
}
fn main(){}
