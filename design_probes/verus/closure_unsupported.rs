use vstd::prelude::*;
verus! {
pub struct Error;
pub type Result<T> = core::result::Result<T, Error>;
pub struct St { pub ghost disk: int, pub ghost marker: bool }

#[verifier::external_body]
pub fn store(s: &mut St, m: u8) -> (r: Result<()>)
  ensures r is Ok ==> final(s).disk == m as int, r is Err ==> (final(s).disk == old(s).disk || final(s).disk == m as int), final(s).marker == old(s).marker
{ unimplemented!() }
#[verifier::external_body]
pub fn append_commit(s: &mut St) -> (r: Result<()>)
  ensures final(s).disk == old(s).disk, r is Ok ==> final(s).marker
{ unimplemented!() }

pub fn commit_tail(s: &mut St, new_m: u8) -> (r: Result<()>)
  ensures r is Ok ==> final(s).disk == new_m as int && final(s).marker
{
    if let Err(e) = (|| -> Result<()> {
      store(s, new_m)?;
      append_commit(s)?;
      Ok(())
    })() {
      return Err(e);
    }
    Ok(())
}
}
fn main(){}
