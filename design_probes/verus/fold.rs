use vstd::prelude::*;
use std::collections::{HashMap, BTreeMap};
verus! {

pub type DocId = u32;

#[verifier::external_body]
pub struct Document { _p: u8 }
impl Clone for Document {
    #[verifier::external_body]
    fn clone(&self) -> (r: Self) ensures r == *self { unimplemented!() }
}

#[derive(Debug)]
pub struct DocAddress { pub segment_id: String, pub doc_id: DocId }

pub enum PendingOp {
  Add { doc_id: String, doc: Document },
  Delete { doc_id: String },
}

#[verifier::external_body]
pub fn map_push(m: &mut HashMap<String, Vec<DocId>>, k: String, v: DocId)
  ensures true
{ m.entry(k).or_default().push(v); }

pub open spec fn last_op_is_add(ops: Seq<PendingOp>, id: String) -> bool
  decreases ops.len()
{
  if ops.len() == 0 { false } else {
    match ops.last() {
      PendingOp::Add { doc_id, .. } => if doc_id == id { true } else { last_op_is_add(ops.drop_last(), id) },
      PendingOp::Delete { doc_id } => if doc_id == id { false } else { last_op_is_add(ops.drop_last(), id) },
    }
  }
}

pub fn fold(pending_ops: &Vec<PendingOp>, live_docs: &mut HashMap<String, DocAddress>,
            pending_new: &mut BTreeMap<String, Document>, tombstones: &mut HashMap<String, Vec<DocId>>)
  requires vstd::std_specs::hash::obeys_key_model::<String>(), old(pending_new)@ == Map::<String, Document>::empty(),
  ensures forall|id: String| final(pending_new)@.contains_key(id) <==> last_op_is_add(pending_ops@, id),
{
    broadcast use vstd::std_specs::hash::group_hash_axioms;
    let ghost mut done: Seq<PendingOp> = Seq::empty();
    let mut i = 0usize;
    for op in it: pending_ops.iter()
      invariant
        forall|id: String| pending_new@.contains_key(id) <==> last_op_is_add(pending_ops@.take(it.index@ as int), id),
    {
      match op {
        PendingOp::Add { doc_id, doc } => {
          if let Some(addr) = live_docs.remove(doc_id) {
            map_push(tombstones, addr.segment_id, addr.doc_id);
          }
          pending_new.insert(doc_id.clone(), doc.clone());
        }
        PendingOp::Delete { doc_id } => {
          pending_new.remove(doc_id);
          if let Some(addr) = live_docs.remove(doc_id) {
            map_push(tombstones, addr.segment_id, addr.doc_id);
          }
        }
      }
      proof {
        let k = it.index@ as int;
        assert(pending_ops@.take(k+1).drop_last() =~= pending_ops@.take(k));
        assert(pending_ops@.take(k+1).last() == pending_ops@[k]);
      }
    }
    proof { assert(pending_ops@.take(pending_ops@.len() as int) =~= pending_ops@); }
}
}
fn main(){}
