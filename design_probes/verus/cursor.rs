use vstd::prelude::*;
verus! {
pub struct Error;
pub type Result<T> = core::result::Result<T, Error>;
pub const CURSOR_VERSION: u8 = 1;
pub const CURSOR_BYTES: usize = 21;
pub const MAX_CURSOR_ADVANCE: usize = 50_000;

pub uninterp spec fn be32(x: u32) -> Seq<u8>;
pub broadcast proof fn be32_len(x: u32) ensures #[trigger] be32(x).len() == 4 { admit(); }
pub broadcast proof fn be32_inj(x: u32, y: u32) ensures #[trigger] be32(x) == #[trigger] be32(y) ==> x == y { admit(); }

#[verifier::external_body]
pub fn put_be_u32(buf: &mut [u8; 21], off: usize, x: u32)
    requires off + 4 <= 21
    ensures final(buf)@ == old(buf)@.subrange(0, off as int) + be32(x) + old(buf)@.subrange(off as int + 4, 21)
{ unimplemented!() }

#[verifier::external_body]
pub fn get_be_u32(buf: &[u8; 21], off: usize) -> (x: u32)
    requires off + 4 <= 21
    ensures be32(x) == buf@.subrange(off as int, off as int + 4)
{ unimplemented!() }

pub struct Fields { pub generation: u32, pub score_bits: u32, pub segment_ord: u32, pub doc_id: u32, pub returned: u32 }

pub fn encode_fields(version: u8, f: &Fields) -> (buf: [u8; 21])
{
    let mut buf = [0u8; CURSOR_BYTES];
    buf[0] = version;
    put_be_u32(&mut buf, 1, f.generation);
    put_be_u32(&mut buf, 5, f.score_bits);
    put_be_u32(&mut buf, 9, f.segment_ord);
    put_be_u32(&mut buf, 13, f.doc_id);
    put_be_u32(&mut buf, 17, f.returned);
    buf
}

pub fn decode_fields(bytes: &[u8; 21]) -> (r: Result<Fields>)
{
    let version = bytes[0];
    if version != CURSOR_VERSION {
      return Err(Error);
    }
    let generation = get_be_u32(bytes, 1);
    let score_bits = get_be_u32(bytes, 5);
    let segment_ord = get_be_u32(bytes, 9);
    let doc_id = get_be_u32(bytes, 13);
    let returned = get_be_u32(bytes, 17);
    if returned as usize > MAX_CURSOR_ADVANCE {
      return Err(Error);
    }
    Ok(Fields { generation, score_bits, segment_ord, doc_id, returned })
}

pub fn roundtrip(f: Fields) -> (r: Result<Fields>)
    requires f.returned <= MAX_CURSOR_ADVANCE
    ensures r is Ok, r->Ok_0 == f
{
    broadcast use be32_len, be32_inj;
    let b = encode_fields(CURSOR_VERSION, &f);
    decode_fields(&b)
}
}
fn main(){}
