use vstd::prelude::*;
verus! {
pub struct Error;
pub type Result<T> = core::result::Result<T, Error>;
pub const CURSOR_BYTES: usize = 21;
pub const CURSOR_HEX_LEN: usize = CURSOR_BYTES * 2;

pub uninterp spec fn utf8_ok(p: Seq<u8>) -> bool;
#[verifier::external_body]
#[derive(Debug)]
pub struct Utf8Error { _p: u8 }
#[verifier::external_body]
pub fn str_from_utf8(p: &[u8]) -> (r: core::result::Result<&str, Utf8Error>)
  ensures r is Ok <==> utf8_ok(p@)
{ unimplemented!() }
#[verifier::external_body]
pub fn u8_from_str_radix(s: &str, radix: u32) -> (r: Result<u8>)
{ unimplemented!() }
#[verifier::external_body]
pub fn str_as_bytes(s: &str) -> (b: &[u8])
{ unimplemented!() }

// slice A of PaginationCursor::decode after R1, R8, R14
pub fn decode_hex(raw: &str) -> (r: Result<[u8; 21]>)
{
    let raw_bytes = str_as_bytes(raw);
    if raw_bytes.len() != CURSOR_HEX_LEN {
      return Err(Error);
    }
    let mut bytes = [0u8; CURSOR_BYTES];
    let mut i: usize = 0;
    while i < raw_bytes.len() / 2
      invariant raw_bytes@.len() == 42, i <= 21
      decreases 21 - i
    {
      let chunk = &raw_bytes[2 * i..2 * i + 2];
      let hex = str_from_utf8(chunk).unwrap();
      let value = match u8_from_str_radix(hex, 16) { Ok(v) => v, Err(e) => return Err(e) };
      bytes[i] = value;
      i += 1;
    }
    Ok(bytes)
}
}
fn main(){}
