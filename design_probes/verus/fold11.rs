use vstd::prelude::*;
use std::collections::{HashMap, BTreeMap};
verus! {

pub type DocId = u32;

#[verifier::external_body]
pub struct Document { _p: u8 }
impl Clone for Document {
    #[verifier::external_body]
    fn clone(&self) -> (r: Self) ensures r == *self { unimplemented!() }
}

pub struct DocAddress { pub segment_id: String, pub doc_id: DocId }

pub enum PendingOp {
  Add { doc_id: String, doc: Document },
  Delete { doc_id: String },
}

pub open spec fn op_id(op: PendingOp) -> String {
    match op { PendingOp::Add { doc_id, .. } => doc_id, PendingOp::Delete { doc_id } => doc_id }
}

pub open spec fn tomb_has(m: Map<String, Vec<DocId>>, seg: String, ord: DocId) -> bool {
    m.contains_key(seg) && m[seg]@.contains(ord)
}
// R3 helper: X.entry(K).or_default().push(V)  -- assumed contract: insert-or-append
#[verifier::external_body]
pub fn map_vec_push(m: &mut HashMap<String, Vec<DocId>>, k: String, v: DocId)
  ensures forall|s: String, o: DocId| #![auto] tomb_has(final(m)@, s, o) <==> (tomb_has(old(m)@, s, o) || (s == k && o == v))
{ m.entry(k).or_default().push(v); }

pub open spec fn last_add(ops: Seq<PendingOp>, id: String) -> Option<Document>
  decreases ops.len()
{
  if ops.len() == 0 { None } else {
    match ops.last() {
      PendingOp::Add { doc_id, doc } => if doc_id == id { Some(doc) } else { last_add(ops.drop_last(), id) },
      PendingOp::Delete { doc_id } => if doc_id == id { None } else { last_add(ops.drop_last(), id) },
    }
  }
}
pub open spec fn touched(ops: Seq<PendingOp>, id: String) -> bool {
  exists|i: int| 0 <= i < ops.len() && op_id(#[trigger] ops[i]) == id
}

pub open spec fn was_live_touched(ops: Seq<PendingOp>, live0: Map<String, DocAddress>, s: String, o: DocId) -> bool {
    exists|id: String| #![auto] touched(ops, id) && live0.contains_key(id) && live0[id].segment_id == s && live0[id].doc_id == o
}

pub fn fold(pending_ops: &Vec<PendingOp>, live_docs: &mut HashMap<String, DocAddress>,
            pending_new: &mut BTreeMap<String, Document>, tombstones: &mut HashMap<String, Vec<DocId>>)
  requires vstd::std_specs::hash::obeys_key_model::<String>(), vstd::std_specs::btree::key_obeys_cmp_spec::<String>(), old(pending_new)@ == Map::<String, Document>::empty(), old(tombstones)@ == Map::<String, Vec<DocId>>::empty(),
  ensures
    forall|id: String| #![auto] final(pending_new)@.contains_key(id) <==> last_add(pending_ops@, id) is Some,
    forall|id: String| #![auto] final(pending_new)@.contains_key(id) ==> final(pending_new)@[id] == last_add(pending_ops@, id)->Some_0,
    forall|id: String| #![auto] !touched(pending_ops@, id) ==> (final(live_docs)@.contains_key(id) <==> old(live_docs)@.contains_key(id)),
    forall|id: String| #![auto] !touched(pending_ops@, id) && old(live_docs)@.contains_key(id) ==> final(live_docs)@[id] == old(live_docs)@[id],
    forall|id: String| #![auto] touched(pending_ops@, id) ==> !final(live_docs)@.contains_key(id),
    // (c) exactly the old copies are tombstoned
    forall|s: String, o: DocId| #![auto] tomb_has(final(tombstones)@, s, o) <==> was_live_touched(pending_ops@, old(live_docs)@, s, o),
{
    broadcast use vstd::std_specs::hash::group_hash_axioms;
    broadcast use vstd::std_specs::btree::group_btree_axioms;
    let ghost live0 = live_docs@;
    for op in it: pending_ops.iter()
      invariant
        vstd::std_specs::btree::key_obeys_cmp_spec::<String>(),
        vstd::std_specs::hash::obeys_key_model::<String>(),
        forall|id: String| #![auto] pending_new@.contains_key(id) <==> last_add(pending_ops@.take(it.index@ as int), id) is Some,
        forall|id: String| #![auto] pending_new@.contains_key(id) ==> pending_new@[id] == last_add(pending_ops@.take(it.index@ as int), id)->Some_0,
        forall|id: String| #![auto] !touched(pending_ops@.take(it.index@ as int), id) ==> (live_docs@.contains_key(id) <==> live0.contains_key(id)),
        forall|id: String| #![auto] !touched(pending_ops@.take(it.index@ as int), id) && live0.contains_key(id) ==> live_docs@[id] == live0[id],
        forall|id: String| #![auto] touched(pending_ops@.take(it.index@ as int), id) ==> !live_docs@.contains_key(id),
        forall|s: String, o: DocId| #![auto] tomb_has(tombstones@, s, o) <==> was_live_touched(pending_ops@.take(it.index@ as int), live0, s, o),
    {
      let ghost k = it.index@ as int;
      proof {
        assert(pending_ops@.take(k+1).drop_last() =~= pending_ops@.take(k));
        assert(pending_ops@.take(k+1).last() == pending_ops@[k]);
        assert forall|id: String| touched(pending_ops@.take(k+1), id) <==> (touched(pending_ops@.take(k), id) || op_id(pending_ops@[k]) == id) by {
          if touched(pending_ops@.take(k), id) { let i = choose|i: int| 0 <= i < k && op_id(#[trigger] pending_ops@.take(k)[i]) == id; assert(pending_ops@.take(k+1)[i] == pending_ops@.take(k)[i]); }
          if op_id(pending_ops@[k]) == id { assert(pending_ops@.take(k+1)[k] == pending_ops@[k]); }
          if touched(pending_ops@.take(k+1), id) { let i = choose|i: int| 0 <= i < k+1 && op_id(#[trigger] pending_ops@.take(k+1)[i]) == id; if i < k { assert(pending_ops@.take(k)[i] == pending_ops@.take(k+1)[i]); } }
        }
      }
      let ghost pn0 = pending_new@;
      let ghost tb0 = tombstones@;
      let ghost ld0 = live_docs@;
      match op {
        PendingOp::Add { doc_id, doc } => {
          if let Some(addr) = live_docs.remove(doc_id) {
            map_vec_push(tombstones, addr.segment_id, addr.doc_id);
          }
          pending_new.insert(doc_id.clone(), doc.clone());
          proof {
            assert(pending_new@ == pn0.insert(*doc_id, *doc));
            assert(pending_ops@[k] == *op);
            assert forall|id: String| #![auto] last_add(pending_ops@.take(k+1), id) == (if *doc_id == id { Some(*doc) } else { last_add(pending_ops@.take(k), id) }) by {}
          }
        }
        PendingOp::Delete { doc_id } => {
          pending_new.remove(doc_id);
          if let Some(addr) = live_docs.remove(doc_id) {
            map_vec_push(tombstones, addr.segment_id, addr.doc_id);
          }
          proof {
            assert(pending_new@ == pn0.remove(*doc_id));
            assert(pending_ops@[k] == *op);
            assert forall|id: String| #![auto] last_add(pending_ops@.take(k+1), id) == (if *doc_id == id { None::<Document> } else { last_add(pending_ops@.take(k), id) }) by {}
          }
        }
      }
      proof {
        let id0 = op_id(pending_ops@[k]);
        assert(pending_ops@[k] == *op);
        assert forall|s: String, o: DocId| #![auto] tomb_has(tombstones@, s, o) <==> was_live_touched(pending_ops@.take(k + 1), live0, s, o) by {
            let pushed = ld0.contains_key(id0) && ld0[id0].segment_id == s && ld0[id0].doc_id == o;
            assert(tomb_has(tombstones@, s, o) <==> (tomb_has(tb0, s, o) || pushed));
            if ld0.contains_key(id0) { assert(!touched(pending_ops@.take(k), id0)); assert(live0.contains_key(id0) && ld0[id0] == live0[id0]); }
            if tomb_has(tb0, s, o) {
                let id = choose|id: String| #![auto] touched(pending_ops@.take(k), id) && live0.contains_key(id) && live0[id].segment_id == s && live0[id].doc_id == o;
                assert(touched(pending_ops@.take(k + 1), id));
            }
            if pushed { assert(touched(pending_ops@.take(k + 1), id0)); }
            if was_live_touched(pending_ops@.take(k + 1), live0, s, o) {
                let id = choose|id: String| #![auto] touched(pending_ops@.take(k + 1), id) && live0.contains_key(id) && live0[id].segment_id == s && live0[id].doc_id == o;
                if touched(pending_ops@.take(k), id) { assert(was_live_touched(pending_ops@.take(k), live0, s, o)); }
                else { assert(id == id0); assert(ld0.contains_key(id0)); }
            }
        }
      }
    }
    proof { assert(pending_ops@.take(pending_ops@.len() as int) =~= pending_ops@); assert(live0 == old(live_docs)@); }
}
}
fn main(){}
