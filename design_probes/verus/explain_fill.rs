use vstd::prelude::*;
verus! {
pub struct HitExplanation { pub base_score: f32, pub final_score: f32 }
pub struct RankedHit { pub score: f32, pub explanation: Option<HitExplanation> }

pub open spec fn ok(h: RankedHit) -> bool { h.explanation is Some && h.explanation->Some_0.final_score == h.score }

pub fn fill(hits: &mut Vec<RankedHit>)
  ensures final(hits)@.len() == old(hits)@.len(),
    forall|i: int| 0 <= i < final(hits)@.len() ==> ok(#[trigger] final(hits)@[i]),
    forall|i: int| 0 <= i < final(hits)@.len() ==> (#[trigger] final(hits)@[i]).score == old(hits)@[i].score,
{
        let mut j: usize = 0;
        while j < hits.len()
          invariant j <= hits@.len(), hits@.len() == old(hits)@.len(),
            forall|i: int| 0 <= i < j ==> ok(#[trigger] hits@[i]),
            forall|i: int| 0 <= i < hits@.len() ==> (#[trigger] hits@[i]).score == old(hits)@[i].score,
          decreases hits@.len() - j
        {
          let hit = &mut hits[j];
          j += 1;
          if let Some(expl) = hit.explanation.as_mut() {
            expl.final_score = hit.score;
          } else {
            hit.explanation = Some(HitExplanation {
              base_score: hit.score,
              final_score: hit.score,
            });
          }
        }
}
}
fn main(){}
