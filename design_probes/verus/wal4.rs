use vstd::prelude::*;
use vstd::string::*;
verus! {
pub struct Error;
pub type Result<T> = core::result::Result<T, Error>;

#[verifier::external_body]
pub struct Document { _p: u8 }

pub enum WalEntry {
  AddDoc(Document),
  DeleteDocId(String),
  Commit,
}

pub uninterp spec fn doc_parses(p: Seq<u8>) -> bool;
pub uninterp spec fn doc_of(p: Seq<u8>) -> Document;
pub uninterp spec fn utf8_ok(p: Seq<u8>) -> bool;
pub uninterp spec fn utf8_of(p: Seq<u8>) -> Seq<char>;

#[verifier::external_body]
pub fn serde_json_from_slice_document(p: &[u8]) -> (r: Result<Document>)
  ensures r is Ok <==> doc_parses(p@), r is Ok ==> r->Ok_0 == doc_of(p@)
{ unimplemented!() }

#[verifier::external_body]
pub fn str_from_utf8(p: &[u8]) -> (r: Result<&str>)
  ensures r is Ok <==> utf8_ok(p@), r is Ok ==> r->Ok_0@ == utf8_of(p@)
{ unimplemented!() }

pub fn decode_one(entry_type: u8, payload: &[u8], entries: &mut Vec<WalEntry>)
{
      match entry_type {
        1 => {
          if let Ok(doc) = serde_json_from_slice_document(payload) {
            entries.push(WalEntry::AddDoc(doc));
          }
        }
        2 => entries.push(WalEntry::Commit),
        3 => {
          if let Ok(id) = str_from_utf8(payload) {
            entries.push(WalEntry::DeleteDocId(id.to_string()));
          }
        }
        _ => {}
      }
}

pub fn pending(entries: Vec<WalEntry>) -> (pending: Vec<WalEntry>)
{
    let mut pending = Vec::new();
    for entry in entries {
      match entry {
        WalEntry::AddDoc(_) | WalEntry::DeleteDocId(_) => pending.push(entry),
        WalEntry::Commit => pending.clear(),
      }
    }
    pending
}
}
fn main(){}
