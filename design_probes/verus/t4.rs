use vstd::prelude::*;
use std::collections::{HashMap, BTreeMap};
verus! {
pub fn g(m: &mut HashMap<String, u32>, k: &String) -> (r: Option<u32>)
  requires vstd::std_specs::hash::obeys_key_model::<String>(),
  ensures final(m)@ == old(m)@.remove(*k) , r == (if old(m)@.contains_key(*k) { Some(old(m)@[*k]) } else { None })
{
  broadcast use vstd::std_specs::hash::group_hash_axioms;
  let r = m.remove(k);
  r
}
pub fn b(m: &mut BTreeMap<String, u32>, k: String)
  ensures final(m)@ == old(m)@.insert(k, 3)
{
  m.insert(k, 3);
}
pub fn e(m: &mut HashMap<String, Vec<u32>>, k: String, v: u32)
{
  m.entry(k).or_default().push(v);
}
}
fn main(){}
