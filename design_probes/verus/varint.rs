use vstd::prelude::*;
verus! {

pub struct Error;
pub type Result<T> = core::result::Result<T, Error>;

pub open spec fn enc(v: nat) -> Seq<u8>
    decreases v
{
    if v < 0x80 { seq![v as u8] }
    else { seq![((v % 0x80) + 0x80) as u8] + enc(v / 0x80) }
}

pub fn write_u64(mut v: u64, out: &mut Vec<u8>)
    ensures final(out)@ == old(out)@ + enc(v as nat)
{
  let ghost v0 = v;
  let ghost pre = out@;
  while v >= 0x80
    invariant
        out@ + enc(v as nat) == pre + enc(v0 as nat),
    decreases v
  {
    proof {
        assert(((v as u8) & 0x7F) | 0x80 == ((v % 0x80) + 0x80) as u8) by(bit_vector);
        assert(v >> 7 == v / 0x80) by(bit_vector);
    }
    out.push(((v as u8) & 0x7F) | 0x80);
    v >>= 7;
    proof {
        assert(out@ + enc(v as nat) == pre + enc(v0 as nat)) by {
            // enc unfold
            admit();
        }
    }
  }
  out.push(v as u8);
  proof { admit(); }
}

pub fn read_u64(buf: &[u8]) -> (r: Result<(u64, usize)>)
{
  let mut shift = 0u32;
  let mut value = 0u64;
  let mut i: usize = 0;
  while i < buf.len()
    invariant i <= buf.len()
    decreases buf.len() - i
  {
    let b = buf[i];
    let part = (b & 0x7F) as u64;
    value |= part << shift;
    if b & 0x80 == 0 {
      return Ok((value, i + 1));
    }
    shift += 7;
    i += 1;
  }
  Err(Error)
}

} // verus!
fn main() {}
