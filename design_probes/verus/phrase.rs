use vstd::prelude::*;
verus! {
  pub fn search(positions: &[Vec<u32>], idx: usize, prev: u32, remaining: i32) -> (r: bool)
    requires remaining >= 0, forall|i: int, j: int| 0 <= i < positions@.len() && 0 <= j < positions@[i]@.len() ==> positions@[i]@[j] < 0x4000_0000,
    decreases positions@.len() - idx
  {
    if idx >= positions.len() {
      return true;
    }
    let mut j: usize = 0;
    while j < positions[idx].len()
      invariant idx < positions@.len(), j <= positions@[idx as int]@.len(), remaining >= 0,
        forall|i: int, k: int| 0 <= i < positions@.len() && 0 <= k < positions@[i]@.len() ==> positions@[i]@[k] < 0x4000_0000,
      decreases positions@[idx as int]@.len() - j
    {
      let pos = positions[idx][j];
      j += 1;
      if pos <= prev {
        continue;
      }
      let gap = pos.saturating_sub(prev.saturating_add(1)) as i32;
      if gap > remaining {
        // positions are sorted; no later entry will shrink the gap
        break;
      }
      if search(positions, idx + 1, pos, remaining - gap) {
        return true;
      }
    }
    false
  }
}
fn main(){}
