use vstd::prelude::*;
verus! {
pub open spec fn gapf(pos: u32, prev: u32) -> int { pos as int - prev as int - 1 }

pub open spec fn chain(positions: Seq<Vec<u32>>, idx: int, prev: u32, remaining: int) -> bool
    decreases positions.len() - idx
{
    if idx >= positions.len() { true } else {
        exists|j: int| 0 <= j < positions[idx]@.len() && {
            let pos = #[trigger] positions[idx]@[j];
            pos > prev && gapf(pos, prev) <= remaining && chain(positions, idx + 1, pos, remaining - gapf(pos, prev)) }
    }
}
pub open spec fn step_ok(positions: Seq<Vec<u32>>, idx: int, prev: u32, remaining: int, j: int) -> bool {
    let pos = positions[idx]@[j];
    pos > prev && gapf(pos, prev) <= remaining && chain(positions, idx + 1, pos, remaining - gapf(pos, prev))
}
pub open spec fn wf(positions: Seq<Vec<u32>>) -> bool {
    forall|i: int, a: int, b: int| 0 <= i < positions.len() && 0 <= a < b < positions[i]@.len() ==> positions[i]@[a] < positions[i]@[b]
}
pub open spec fn small(positions: Seq<Vec<u32>>) -> bool {
    forall|i: int, k: int| 0 <= i < positions.len() && 0 <= k < positions[i]@.len() ==> positions[i]@[k] < 0x4000_0000
}

  pub fn search(positions: &[Vec<u32>], idx: usize, prev: u32, remaining: i32) -> (r: bool)
    requires remaining >= 0, wf(positions@), small(positions@), prev < 0x4000_0000,
    ensures r == chain(positions@, idx as int, prev, remaining as int)
    decreases positions@.len() - idx
  {
    if idx >= positions.len() {
      return true;
    }
    let mut j: usize = 0;
    while j < positions[idx].len()
      invariant idx < positions@.len(), j <= positions@[idx as int]@.len(), remaining >= 0,
        wf(positions@), small(positions@), prev < 0x4000_0000,
        forall|k: int| 0 <= k < j ==> !step_ok(positions@, idx as int, prev, remaining as int, k),
      ensures
        forall|k: int| 0 <= k < positions@[idx as int]@.len() ==> !step_ok(positions@, idx as int, prev, remaining as int, k),
      decreases positions@[idx as int]@.len() - j
    {
      let pos = positions[idx][j];
      j += 1;
      if pos <= prev {
        continue;
      }
      let gap = pos.saturating_sub(prev.saturating_add(1)) as i32;
      assert(gap as int == gapf(pos, prev));
      if gap > remaining {
        // positions are sorted; no later entry will shrink the gap
        proof {
          assert forall|k: int| 0 <= k < positions@[idx as int]@.len() implies !step_ok(positions@, idx as int, prev, remaining as int, k) by {
            if k >= j as int { assert(positions@[idx as int]@[k] > positions@[idx as int]@[j as int - 1]); }
          }
        }
        break;
      }
      if search(positions, idx + 1, pos, remaining - gap) {
        proof { let w = j as int - 1; assert(0 <= w < positions@[idx as int]@.len() && step_ok(positions@, idx as int, prev, remaining as int, w)); assert(chain(positions@, idx as int, prev, remaining as int)); }
        return true;
      }
    }
    proof {
      assert forall|k: int| 0 <= k < positions@[idx as int]@.len() implies !({ let pos = #[trigger] positions@[idx as int]@[k]; pos > prev && gapf(pos, prev) <= remaining as int && chain(positions@, idx as int + 1, pos, remaining as int - gapf(pos, prev)) }) by {
        assert(!step_ok(positions@, idx as int, prev, remaining as int, k));
      }
      assert(!chain(positions@, idx as int, prev, remaining as int));
    }
    false
  }
}
fn main(){}
