use vstd::prelude::*;
verus! {
pub fn f(data: &[u8], a: usize, b: usize) -> (r: usize)
  requires a <= b <= data@.len()
{
  let p = &data[a..b];
  let q = &data[a..];
  p.len() + 0
}
pub fn g(data: &Vec<u8>) -> (r: u64) {
  let mut s = 0u64;
  for (i, b) in data.iter().enumerate() {
    if *b == 0 { s = i as u64; }
  }
  s
}
pub fn h(data: &[u8]) -> (r: u64) {
  let mut s = 0u64;
  for b in data.iter() {
    if *b == 0 { s = 1; }
  }
  s
}
pub fn k(c: [u8;4], d: &[u8]) -> bool requires d@.len() == 4 {
  let x = 7u32.to_le_bytes();
  x != d
}
}
fn main(){}
