use vstd::prelude::*;
verus! {

global size_of usize == 8;

pub struct Error;
pub type Result<T> = core::result::Result<T, Error>;

pub open spec fn cont(b: u8) -> bool { b & 0x80 != 0 }

// position of first byte without continuation bit, if any
pub open spec fn varint_len(s: Seq<u8>) -> Option<nat>
    decreases s.len()
{
    if s.len() == 0 { None }
    else if !cont(s[0]) { Some(1nat) }
    else { match varint_len(s.drop_first()) { Some(n) => Some(n + 1), None => None } }
}

pub uninterp spec fn varint_val(s: Seq<u8>) -> u64;   // value read_u64 computes from the first varint_len bytes

#[verifier::external_body]
pub fn read_u64(buf: &[u8]) -> (r: Result<(u64, usize)>)
    ensures
        r is Ok <==> varint_len(buf@) is Some,
        r is Ok ==> r->Ok_0.1 == varint_len(buf@)->Some_0 && r->Ok_0.0 == varint_val(buf@) && 1 <= r->Ok_0.1 <= buf@.len(),
{ unimplemented!() }

pub uninterp spec fn crc32(s: Seq<u8>) -> u32;
pub uninterp spec fn le32(c: u32) -> Seq<u8>;
pub broadcast proof fn le32_len(c: u32) ensures #[trigger] le32(c).len() == 4 { admit(); }

pub struct Hasher { pub ghost data: Seq<u8> }
impl Hasher {
    #[verifier::external_body]
    pub fn new() -> (h: Hasher) ensures h.data == Seq::<u8>::empty() { unimplemented!() }
    #[verifier::external_body]
    pub fn update(&mut self, b: &[u8]) ensures final(self).data == old(self).data + b@ { unimplemented!() }
    #[verifier::external_body]
    pub fn finalize(self) -> (c: u32) ensures c == crc32(self.data) { unimplemented!() }
}
#[verifier::external_body]
pub fn crc_bytes_ne(c: u32, b: &[u8]) -> (r: bool) ensures r == (le32(c) != b@) { unimplemented!() }

pub struct Rec { pub t: u8, pub p: Seq<u8> }

// one frame at the head of d: Some((rec, consumed)) or None (stop)
pub open spec fn head_frame(d: Seq<u8>) -> Option<(Rec, nat)> {
    match varint_len(d) {
        None => None,
        Some(n) => {
            let len = varint_val(d) as nat;
            if n >= d.len() { None }
            else if n + 1 + len + 4 > d.len() { None }
            else {
                let t = d[n as int];
                let p = d.subrange(n as int + 1, n as int + 1 + len as int);
                let c = d.subrange(n as int + 1 + len as int, n as int + 1 + len as int + 4);
                if le32(crc32(seq![t] + p)) != c { None } else { Some((Rec { t, p }, n + 1 + len + 4)) }
            }
        }
    }
}

pub open spec fn parse_frames(d: Seq<u8>) -> Seq<Rec>
    decreases d.len()
{
    if d.len() == 0 { Seq::empty() } else {
        match head_frame(d) {
            None => Seq::empty(),
            Some((r, k)) => if k == 0 || k > d.len() { Seq::empty() } else { seq![r] + parse_frames(d.subrange(k as int, d.len() as int)) },
        }
    }
}

pub open spec fn recs_of(data: Seq<u8>, out: Seq<(u8, usize, usize)>) -> Seq<Rec> {
    Seq::new(out.len(), |i: int| Rec { t: out[i].0, p: data.subrange(out[i].1 as int, out[i].2 as int) })
}

pub fn replay_loop(data: &[u8]) -> (out: Vec<(u8, usize, usize)>)
    ensures
        recs_of(data@, out@) == parse_frames(data@),
        forall|i: int| 0 <= i < out@.len() ==> (#[trigger] out@[i]).1 <= out@[i].2 <= data@.len(),
{
    let mut cursor = 0usize;
    let mut entries: Vec<(u8, usize, usize)> = Vec::new();
    let ghost mut stopped = false;
    proof { assert(data@.subrange(0, data@.len() as int) =~= data@); assert(recs_of(data@, entries@) =~= Seq::<Rec>::empty()); }
    while cursor < data.len()
      invariant_except_break
        cursor <= data.len(),
        parse_frames(data@) == recs_of(data@, entries@) + parse_frames(data@.subrange(cursor as int, data@.len() as int)),
      invariant
        forall|i: int| 0 <= i < entries@.len() ==> (#[trigger] entries@[i]).1 <= entries@[i].2 <= data@.len(),
      ensures
        forall|i: int| 0 <= i < entries@.len() ==> (#[trigger] entries@[i]).1 <= entries@[i].2 <= data@.len(),
        parse_frames(data@) == recs_of(data@, entries@),
      decreases data.len() - cursor
    {
      let ghost c0 = cursor as int;
      let ghost rest = data@.subrange(c0, data@.len() as int);
      let ghost old_entries = entries@;
      proof { assert(rest.len() > 0); }
      let (len, len_bytes) = match read_u64(&data[cursor..]) {
        Ok(v) => v,
        Err(_) => { proof { assert(head_frame(rest) is None); assert(parse_frames(rest) =~= Seq::<Rec>::empty()); } break },
      };
      cursor += len_bytes;
      if cursor >= data.len() {
        proof { assert(head_frame(rest) is None); }
        break;
      }
      let entry_type = data[cursor];
      cursor += 1;
      let len_usize = if let Ok(v) = usize::try_from(len) {
        v
      } else {
        break;
      };
      let payload_end = if let Some(end) = cursor.checked_add(len_usize) {
        end
      } else {
        proof { assert(head_frame(rest) is None); }
        break;
      };
      let checksum_end = if let Some(end) = payload_end.checked_add(4) {
        end
      } else {
        proof { assert(head_frame(rest) is None); }
        break;
      };
      if checksum_end > data.len() {
        proof { assert(head_frame(rest) is None); }
        break;
      }
      let payload = &data[cursor..payload_end];
      let p0 = cursor;
      cursor = payload_end;
      let checksum_bytes = &data[cursor..checksum_end];
      cursor = checksum_end;
      let mut hasher = Hasher::new();
      let tb = [entry_type];
      hasher.update(&tb);
      proof { assert(tb@ =~= seq![entry_type]); }
      hasher.update(payload);
      let checksum = hasher.finalize();
      proof {
        let n = len_bytes as int;
        assert(rest[n] == entry_type);
        assert(rest.subrange(n + 1, n + 1 + len as int) =~= payload@);
        assert(rest.subrange(n + 1 + len as int, n + 1 + len as int + 4) =~= checksum_bytes@);
        assert(seq![entry_type] + payload@ =~= Seq::<u8>::empty() + seq![entry_type] + payload@);
        assert(checksum == crc32(seq![entry_type] + payload@));
      }
      if crc_bytes_ne(checksum, checksum_bytes) {
        proof { assert(head_frame(rest) is None); }
        break;
      }
      entries.push((entry_type, p0, payload_end));
      proof {
        let k = (len_bytes as int + 1 + len as int + 4) as nat;
        assert(head_frame(rest) == Some((Rec { t: entry_type, p: payload@ }, k)));
        assert(rest.subrange(k as int, rest.len() as int) =~= data@.subrange(cursor as int, data@.len() as int));
        assert(recs_of(data@, entries@) =~= recs_of(data@, old_entries) + seq![Rec { t: entry_type, p: payload@ }]);
      }
    }
    entries
}

} // verus!
fn main() {}
