use vstd::prelude::*;
verus! {
global size_of usize == 8;

pub open spec fn cont(b: u8) -> bool { b & 0x80 != 0 }

pub open spec fn enc(v: u64) -> Seq<u8>
    decreases v
{
    if v < 0x80 { seq![v as u8] } else { seq![((v as u8) & 0x7F) | 0x80] + enc(v / 0x80) }
}

pub open spec fn acc(s: Seq<u8>, n: nat) -> u64
    decreases n
{
    if n == 0 { 0u64 } else {
        let k = (n - 1) as nat;
        acc(s, k) | (((s[k as int] & 0x7F) as u64) << ((7 * k) as u64))
    }
}

pub open spec fn low(v: u64, j: nat) -> u64 {   // v restricted to its low 7*j bits (j <= 9)
    v & ((((1u64 << ((7 * j) as u64)) - 1) as u64))
}

// closed form of the j-th byte
pub proof fn lemma_enc_byte(v: u64, j: nat)
    requires j < enc(v).len()
    ensures
        enc(v).len() <= 10,
        7 * j < 64,
        enc(v)[j as int] == (if j + 1 < enc(v).len() { ((((v >> ((7 * j) as u64)) as u8) & 0x7F) | 0x80) as u8 } else { (v >> ((7 * j) as u64)) as u8 }),
        j + 1 == enc(v).len() ==> (v >> ((7 * j) as u64)) < 0x80,
    decreases j
{
    lemma_enc_len(v);
    if v < 0x80 {
        assert(enc(v) =~= seq![v as u8]);
        assert(v >> 0u64 == v) by(bit_vector);
    } else {
        let w = v / 0x80;
        assert(w == v >> 7u64) by(bit_vector) requires w == v / 0x80;
        assert(enc(v) =~= seq![((v as u8) & 0x7F) | 0x80] + enc(w));
        if j == 0 {
            assert(v >> 0u64 == v) by(bit_vector);
        } else {
            let jj = (j - 1) as nat;
            lemma_enc_byte(w, jj);
            assert(enc(v)[j as int] == enc(w)[jj as int]);
            let s1 = (7 * jj) as u64; let s2 = (7 * j) as u64;
            assert(s2 == s1 + 7);
            assert((v >> 7u64) >> s1 == v >> s2) by(bit_vector) requires s2 == s1 + 7, s2 < 64;
        }
    }
}

pub proof fn lemma_enc_len(v: u64)
    ensures 1 <= enc(v).len() <= 10,
{
    // enc(v).len() == number of 7-bit groups; bound via v < 2^(7*len)
    lemma_enc_len_bound(v, 10);
}
pub proof fn lemma_enc_len_bound(v: u64, k: nat)
    requires k >= 1, k <= 10, k < 10 ==> v < (1u64 << ((7 * k) as u64)),
    ensures 1 <= enc(v).len() <= k
    decreases k
{
    if v < 0x80 { assert(enc(v) =~= seq![v as u8]); }
    else {
        let w = v / 0x80;
        assert(enc(v) =~= seq![((v as u8) & 0x7F) | 0x80] + enc(w));
        if k == 1 { assert((1u64 << 7u64) == 0x80) by(bit_vector); assert(false); }
        let kk = (k - 1) as nat;
        let s = (7 * kk) as u64; let t = (7 * k) as u64;
        if k < 10 {
            assert(v / 0x80 < (1u64 << s)) by(bit_vector) requires v < (1u64 << t), t == s + 7, t < 64;
        } else {
            assert(v / 0x80 < (1u64 << 63u64)) by(bit_vector);
            assert(s == 63);
        }
        lemma_enc_len_bound(w, kk);
    }
}

pub proof fn lemma_acc(v: u64, rest: Seq<u8>, j: nat)
    requires j <= enc(v).len()
    ensures
        j < enc(v).len() ==> 7 * j < 64 && acc(enc(v) + rest, j) == v & (((1u64 << ((7 * j) as u64)) - 1) as u64),
        j == enc(v).len() ==> acc(enc(v) + rest, j) == v,
    decreases j
{
    let s = enc(v) + rest;
    lemma_enc_len(v);
    if j == 0 {
        assert(v & (((1u64 << 0u64) - 1) as u64) == 0) by(bit_vector);
    } else {
        let k = (j - 1) as nat;
        lemma_acc(v, rest, k);
        lemma_enc_byte(v, k);
        assert(s[k as int] == enc(v)[k as int]);
        let sh = (7 * k) as u64;
        let b = s[k as int];
        let prev = acc(s, k);
        assert(prev == v & (((1u64 << sh) - 1) as u64));
        let part = (b & 0x7F) as u64;
        let top = v >> sh;
        if j < enc(v).len() {
            assert(b == (((top as u8) & 0x7F) | 0x80) as u8);
            assert(part == top & 0x7F) by(bit_vector) requires b == (((top as u8) & 0x7F) | 0x80) as u8, part == (b & 0x7F) as u64;
            let sh2 = (7 * j) as u64;
            assert(sh2 == sh + 7 && sh2 < 64);
            assert((v & (((1u64 << sh) - 1) as u64)) | ((top & 0x7F) << sh) == v & (((1u64 << sh2) - 1) as u64)) by(bit_vector)
                requires top == v >> sh, sh2 == sh + 7, sh2 < 64;
        } else {
            assert(top < 0x80);
            assert(b == top as u8);
            assert(part == top) by(bit_vector) requires b == top as u8, part == (b & 0x7F) as u64, top < 0x80;
            assert((v & (((1u64 << sh) - 1) as u64)) | (top << sh) == v) by(bit_vector)
                requires top == v >> sh, top < 0x80, sh < 64;
        }
    }
}

// the statement U2 needs: decoding what write_u64 wrote, followed by anything, gives the value back
pub proof fn theorem_varint_roundtrip(v: u64, rest: Seq<u8>)
    ensures
        acc(enc(v) + rest, enc(v).len()) == v,
        !cont((enc(v) + rest)[enc(v).len() - 1]),
        forall|i: int| 0 <= i < enc(v).len() - 1 ==> cont(#[trigger] (enc(v) + rest)[i]),
{
    lemma_enc_len(v);
    lemma_acc(v, rest, enc(v).len());
    let n = enc(v).len();
    lemma_enc_byte(v, (n - 1) as nat);
    let top = v >> ((7 * (n - 1)) as u64);
    assert(((top as u8) & 0x80) == 0) by(bit_vector) requires top < 0x80;
    assert forall|i: int| 0 <= i < n - 1 implies cont(#[trigger] (enc(v) + rest)[i]) by {
        lemma_enc_byte(v, i as nat);
        let t = v >> ((7 * i) as u64);
        assert((((((t as u8) & 0x7F) | 0x80) as u8) & 0x80) != 0) by(bit_vector);
    }
}

pub open spec fn varint_len(s: Seq<u8>) -> Option<nat>
    decreases s.len()
{
    if s.len() == 0 { None }
    else if !cont(s[0]) { Some(1nat) }
    else { match varint_len(s.drop_first()) { Some(n) => Some(n + 1), None => None } }
}
pub open spec fn varint_val(s: Seq<u8>) -> u64 {
    match varint_len(s) { Some(n) => acc(s, n), None => 0 }
}
pub uninterp spec fn crc32(s: Seq<u8>) -> u32;
pub uninterp spec fn le32(c: u32) -> Seq<u8>;
pub broadcast proof fn le32_len(c: u32) ensures #[trigger] le32(c).len() == 4 { admit(); }

pub struct Rec { pub t: u8, pub p: Seq<u8> }

pub open spec fn head_frame(d: Seq<u8>) -> Option<(Rec, nat)> {
    match varint_len(d) {
        None => None,
        Some(n) => {
            let len = varint_val(d) as nat;
            if n >= d.len() { None }
            else if n + 1 + len + 4 > d.len() { None }
            else {
                let t = d[n as int];
                let p = d.subrange(n as int + 1, n as int + 1 + len as int);
                let c = d.subrange(n as int + 1 + len as int, n as int + 1 + len as int + 4);
                if le32(crc32(seq![t] + p)) != c { None } else { Some((Rec { t, p }, n + 1 + len + 4)) }
            }
        }
    }
}
pub open spec fn parse_frames(d: Seq<u8>) -> Seq<Rec>
    decreases d.len()
{
    if d.len() == 0 { Seq::empty() } else {
        match head_frame(d) {
            None => Seq::empty(),
            Some((r, k)) => if k == 0 || k > d.len() { Seq::empty() } else { seq![r] + parse_frames(d.subrange(k as int, d.len() as int)) },
        }
    }
}

pub open spec fn frame(r: Rec) -> Seq<u8> {
    enc(r.p.len() as u64) + seq![r.t] + r.p + le32(crc32(seq![r.t] + r.p))
}
pub open spec fn frames(rs: Seq<Rec>) -> Seq<u8>
    decreases rs.len()
{ if rs.len() == 0 { Seq::empty() } else { frame(rs[0]) + frames(rs.drop_first()) } }

// varint_len of anything that starts with enc(v)
pub proof fn lemma_varint_len_enc(v: u64, rest: Seq<u8>)
    ensures varint_len(enc(v) + rest) == Some(enc(v).len())
    decreases v
{
    let s = enc(v) + rest;
    if v < 0x80 {
        assert(enc(v) =~= seq![v as u8]);
        assert(s[0] == v as u8);
        assert(((v as u8) & 0x80) == 0) by(bit_vector) requires v < 0x80;
    } else {
        let w = v / 0x80;
        assert(enc(v) =~= seq![((v as u8) & 0x7F) | 0x80] + enc(w));
        assert(s[0] == ((v as u8) & 0x7F) | 0x80);
        assert(((((v as u8) & 0x7F) | 0x80) & 0x80) != 0) by(bit_vector);
        assert(s.drop_first() =~= enc(w) + rest);
        lemma_varint_len_enc(w, rest);
    }
}

// L1 step: a frame followed by anything parses as that frame
pub proof fn lemma_head_of_frame(r: Rec, x: Seq<u8>)
    requires r.p.len() < 0x1_0000_0000_0000
    ensures head_frame(frame(r) + x) == Some((r, frame(r).len()))
{
    broadcast use le32_len;
    let n64 = r.p.len() as u64;
    let e = enc(n64);
    let d = frame(r) + x;
    let rest = seq![r.t] + r.p + le32(crc32(seq![r.t] + r.p)) + x;
    assert(d =~= e + rest);
    lemma_varint_len_enc(n64, rest);
    theorem_varint_roundtrip(n64, rest);
    lemma_enc_len(n64);
    let n = e.len();
    assert(varint_val(d) == n64);
    assert(d[n as int] == r.t);
    assert(d.subrange(n as int + 1, n as int + 1 + r.p.len() as int) =~= r.p);
    assert(d.subrange(n as int + 1 + r.p.len() as int, n as int + 1 + r.p.len() as int + 4) =~= le32(crc32(seq![r.t] + r.p)));
    assert(frame(r).len() == n + 1 + r.p.len() + 4);
}

// L1 + L3: frames followed by anything start with those records
pub proof fn lemma_parse_frames_prefix(rs: Seq<Rec>, x: Seq<u8>)
    requires forall|i: int| 0 <= i < rs.len() ==> (#[trigger] rs[i]).p.len() < 0x1_0000_0000_0000
    ensures parse_frames(frames(rs) + x) == rs + parse_frames(x)
    decreases rs.len()
{
    broadcast use le32_len;
    if rs.len() == 0 {
        assert(frames(rs) + x =~= x);
        assert(rs + parse_frames(x) =~= parse_frames(x));
    } else {
        let r = rs[0]; let tl = rs.drop_first();
        let d = frames(rs) + x;
        assert(d =~= frame(r) + (frames(tl) + x));
        lemma_head_of_frame(r, frames(tl) + x);
        lemma_enc_len(r.p.len() as u64);
        let k = frame(r).len();
        assert(k >= 6 && k <= d.len());
        assert(d.subrange(k as int, d.len() as int) =~= frames(tl) + x);
        lemma_parse_frames_prefix(tl, x);
        assert(seq![r] + (tl + parse_frames(x)) =~= rs + parse_frames(x));
    }
}

pub proof fn lemma_all_cont_none(s: Seq<u8>)
    requires forall|i: int| 0 <= i < s.len() ==> cont(#[trigger] s[i])
    ensures varint_len(s) is None
    decreases s.len()
{
    if s.len() > 0 {
        assert(cont(s[0]));
        assert forall|i: int| 0 <= i < s.drop_first().len() implies cont(#[trigger] s.drop_first()[i]) by { assert(s.drop_first()[i] == s[i + 1]); }
        lemma_all_cont_none(s.drop_first());
    }
}

// L2: a frame torn at any byte contributes nothing
pub proof fn lemma_torn_frame(r: Rec, k: int)
    requires r.p.len() < 0x1_0000_0000_0000, 0 <= k < frame(r).len()
    ensures parse_frames(frame(r).take(k)) == Seq::<Rec>::empty()
{
    broadcast use le32_len;
    let n64 = r.p.len() as u64;
    let e = enc(n64);
    let f = frame(r);
    let s = f.take(k);
    lemma_enc_len(n64);
    theorem_varint_roundtrip(n64, seq![r.t] + r.p + le32(crc32(seq![r.t] + r.p)));
    assert(f =~= e + (seq![r.t] + r.p + le32(crc32(seq![r.t] + r.p))));
    if k == 0 { }
    else if k < e.len() {
        assert forall|i: int| 0 <= i < s.len() implies cont(#[trigger] s[i]) by { assert(s[i] == f[i]); }
        lemma_all_cont_none(s);
        assert(head_frame(s) is None);
    } else {
        let rest = s.subrange(e.len() as int, k);
        assert(s =~= e + rest);
        lemma_varint_len_enc(n64, rest);
        theorem_varint_roundtrip(n64, rest);
        assert(varint_val(s) == n64);
        assert(f.len() == e.len() + 1 + r.p.len() + 4);
        assert(head_frame(s) is None);
    }
}

// C02/C17 statement: intact frames followed by a frame torn at any byte recover exactly the intact records
pub proof fn theorem_torn_tail(rs: Seq<Rec>, r: Rec, k: int)
    requires
        forall|i: int| 0 <= i < rs.len() ==> (#[trigger] rs[i]).p.len() < 0x1_0000_0000_0000,
        r.p.len() < 0x1_0000_0000_0000, 0 <= k < frame(r).len(),
    ensures parse_frames(frames(rs) + frame(r).take(k)) == rs
{
    lemma_parse_frames_prefix(rs, frame(r).take(k));
    lemma_torn_frame(r, k);
    assert(rs + Seq::<Rec>::empty() =~= rs);
}

pub struct Hasher { pub ghost data: Seq<u8> }
impl Hasher {
    #[verifier::external_body]
    pub fn new() -> (h: Hasher) ensures h.data == Seq::<u8>::empty() { unimplemented!() }
    #[verifier::external_body]
    pub fn update(&mut self, b: &[u8]) ensures final(self).data == old(self).data + b@ { unimplemented!() }
    #[verifier::external_body]
    pub fn finalize(self) -> (c: u32) ensures c == crc32(self.data) { unimplemented!() }
}
#[verifier::external_body]
pub fn le_bytes_u32(c: u32) -> (r: [u8; 4]) ensures r@ == le32(c) { c.to_le_bytes() }

#[verifier::external_body]
pub fn write_u64(v: u64, out: &mut Vec<u8>) ensures final(out)@ == old(out)@ + enc(v) { unimplemented!() }

// slice of Wal::append_entry up to the write (after R4, R5)
pub fn append_entry_buf(entry_type: u8, payload: &[u8]) -> (buf: Vec<u8>)
    requires payload@.len() < 0x1_0000_0000_0000
    ensures buf@ == frame(Rec { t: entry_type, p: payload@ })
{
    broadcast use le32_len;
    let mut buf = Vec::with_capacity(16 + payload.len());
    write_u64(payload.len() as u64, &mut buf);
    buf.push(entry_type);
    buf.extend_from_slice(payload);
    let mut hasher = Hasher::new();
    proof { lemma_enc_len(payload@.len() as u64); }
    hasher.update(&buf[buf.len() - payload.len() - 1..]);
    let checksum = hasher.finalize();
    proof {
        let e = enc(payload@.len() as u64);
        assert(buf@ =~= e + seq![entry_type] + payload@);
        assert(buf@.subrange(buf@.len() - payload@.len() - 1, buf@.len() as int) =~= seq![entry_type] + payload@);
    }
    buf.extend_from_slice(&le_bytes_u32(checksum));
    proof { assert(buf@ =~= frame(Rec { t: entry_type, p: payload@ })); }
    buf
}
}
fn main(){}
