#!/bin/bash
# regenerates every committed evidence file from a run on the UNCHANGED /repo tree (refuses if /repo is dirty)
cd "$(dirname "$0")"
if [ -n "$(git -C /repo status --porcelain --untracked-files=no)" ]; then echo "/repo is dirty"; exit 2; fi
rc=0
for p in $(python3 -c "import sys; sys.path.insert(0,'.'); from vfw import props; print(' '.join(sorted(props.PROPS)))"); do
  ./check $p --tier quick | tail -1 || rc=1
done
exit $rc
